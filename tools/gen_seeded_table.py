#!/usr/bin/env python3
"""Rebuild the table of DESIGN.md section 10.5 from seeded/*/meta.json (rows between the header line and the next blank line)."""
import json, glob, os, re
V = os.path.dirname(os.path.dirname(os.path.abspath(__file__)))
def key(p):
    i = os.path.basename(os.path.dirname(p))
    import re as _re
    m = _re.match(r'R(\d+)-(\d+)', i)
    return (0, i, 0) if i.startswith('C') else (1, int(m.group(1)), int(m.group(2)))
rows = []
for p in sorted(glob.glob(V + '/seeded/*/meta.json'), key=key):
    m = json.load(open(p))
    silent = ' '.join(m.get('run_and_silent', [])) or '-'
    ex2 = m.get('exit2_precondition', [])
    if ex2:
        silent += ' (exit 2: ' + ' '.join(x.split('(')[0] for x in ex2) + ')'
    rows.append('| %s | %s | %s | %s |' % (m['id'], m['needs_to_manifest'].replace('|', '/'), ' '.join(m['caught_by']), silent))
lines = open(V + '/DESIGN.md').read().split('\n')
h = next(i for i, l in enumerate(lines) if l.startswith('| change | what it needs'))
e = next(i for i in range(h, len(lines)) if lines[i] == '')
lines[h + 2:e] = rows
open(V + '/DESIGN.md', 'w').write('\n'.join(lines))
print(len(rows), 'rows')
