#!/bin/bash
# tools/run_all.sh [quick|thorough]  run every claimed check on /repo, print one line each
cd "$(dirname "$0")/.."
tier="${1:-quick}"
for i in $(seq -w 1 19); do
  s=$(date +%s.%N); out=$(./check C$i $tier 2>&1); code=$?; e=$(date +%s.%N)
  printf "C%s %s exit=%d wall=%.1fs  %s\n" $i $tier $code $(echo "$e - $s" | bc) "$(echo "$out" | tail -1 | cut -c1-150)"
  echo "$out" | grep -E "^(VIOLATION|KNOWN-FINDING|machinery)" | head -5
done
