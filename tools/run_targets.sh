#!/bin/bash
# tools/run_targets.sh <targets-file> <worktree> <k> <n>   run the named checks against seeded changes (lines "<id> <Cxx>...")
# on a scratch worktree; this worker takes every line i with i % n == k.  Output: one selftest line per change.
T=$1; W=$2; k=$3; n=$4; V="$(cd "$(dirname "$0")/.." && pwd)"
i=0
while read id checks; do
  if [ $((i % n)) -eq $k ]; then CHECKS="$checks" W=$W "$V/mutants/selftest.sh" "$V/seeded/$id/patch.diff"; fi
  i=$((i+1))
done < "$T"
