#!/bin/bash
# tools/try_mutant.sh <patch> <Cxx> [<Cxx>...]   apply a patch to a scratch worktree of /repo (never /repo itself),
# run the quick checks against it, report exit codes.  Scratch: /tmp/vp-mut (worktree), evidence to /tmp/vp-mut-out.
# env TIER=quick|thorough
set -u
V="$(cd "$(dirname "$0")/.." && pwd)"
W="${W:-/tmp/vp-mut}"
[ -d "$W" ] || git -C /repo worktree add --detach "$W" HEAD -q
git -C "$W" checkout -q --detach "$(git -C /repo rev-parse HEAD)" 2>/dev/null
git -C "$W" checkout -q -- . ; git -C "$W" clean -qfd -e .verif-target
patch="$1"; shift; case "$patch" in none|/*) ;; *) patch="$PWD/$patch";; esac
if [ "$patch" != "none" ]; then
  if ! git -C "$W" apply "$patch" 2>/dev/null; then
    git -C "$W" checkout -q --detach "${FALLBACK_BASE:-$(git -C /repo rev-parse HEAD~1)}"; git -C "$W" checkout -q -- .
    git -C "$W" apply "$patch" || { echo "APPLY FAILED $patch"; exit 3; }
    echo "(applied to $(git -C "$W" rev-parse --short HEAD), not to /repo HEAD)"
  fi
fi
mkdir -p /tmp/vp-mut-out
for p in "$@"; do
  out=$(VERIF_REPO="$W" VERIF_DIR=/tmp/vp-mut-out "$V/check" "$p" "${TIER:-quick}" 2>&1); code=$?
  echo "== $(basename "$patch") $p exit=$code  $(echo "$out" | grep -c '^VIOLATION') violation line(s)"
  echo "$out" | grep -E "^  key=" | head -${SHOW:-3} | cut -c1-260
  [ $code -eq 2 ] && echo "$out" | tail -5
done
git -C "$W" checkout -q -- .
