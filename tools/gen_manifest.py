#!/usr/bin/env python3
"""Regenerates /verif/MANIFEST.json from the table below (kept in one place so it stays valid)."""
import json, os
V = os.path.dirname(os.path.dirname(os.path.abspath(__file__)))
TRUSTED = ("Trusted base: sha2 compression functions; field/curve arithmetic, point (de)compression and hash-to-curve maps of "
           "p256/p384/p521/curve25519-dalek; rustc. Inputs are covered by shape (the stated finite alphabets), not by value; "
           "cryptographic hardness is not decided.")
# id -> (built, technique, level text, design ref)
P = {
 "C10": (True, "explicit-state enumeration of the decoder mutation LTS on the real decoders (depth 1 complete, depth 2 on tags)",
         "Every action of a finite mutation alphabet (truncate to every length, extend by 1..64, set any byte, alias arithmetic) is applied to every valid root encoding of all 11 decoders x 20 suites and the canonicity invariant (decode ok => re-encode identical) is evaluated in every resulting state; thorough = every offset x all 255 values plus depth 2 on tag bytes.", "3/C10"),
 "C11": (True, "exhaustive enumeration of (decoder, field, invalid-encoding, codec) injections on the real decoders",
         "Complete product of every group-element/scalar field of every message and state x a ground-truth-checked menu of invalid encodings x {native, bincode, JSON}, all other fields honest; plus the masked server key through the client's final step. Oracle: Err.", "3/C11"),
}
REASON_TODO = "check not built yet in this round (planned, see DESIGN.md section 3); not claimed until its driver exists"
ALL = ["C%02d" % i for i in range(1, 20)]
checks, na = [], []
for pid in ALL:
    built, tech, text, ref = P.get(pid, (False, "", "", ""))
    if not built:
        na.append({"property_id": pid, "reason": REASON_TODO})
        continue
    checks.append({
        "property_id": pid,
        "quick_cmd": "./check %s quick" % pid,
        "thorough_cmd": "./check %s thorough" % pid,
        "evidence_file": "/verif/evidence/%s.json" % pid,
        "replay_cmd_template": "./check --replay {path}",
        "engine": "mc",
        "level_claimed": {"category": "model_checking", "text": text, "design_ref": "DESIGN.md section " + ref},
        "level_note": TRUSTED,
        "technique": tech,
    })
m = {
 "version": 1,
 "setup_cmd": "./check --build",
 "hooks": {"guard": "opaque_ke_verif", "enable": "no hook is needed: the harness links opaque-ke as an ordinary path dependency (production cfg) and observes everything through the public API and harness-defined Ksf/SecretKey implementations; the guard name is reserved (RUSTFLAGS=\"--cfg opaque_ke_verif\") and unused",
           "baseline_off_cmd": "cd /repo && cargo test --workspace --no-fail-fast --offline", "source_commits": [], "add_only": True},
 "engines": [{"name": "mc", "path": "/verif/mc", "serves_properties": [c["property_id"] for c in checks],
              "kind_free_text": "explicit-state / bounded exhaustive explorer whose transition function is the real opaque-ke API (Rust, rayon); stateright 0.31 as independent state-count cross-check"}],
 "checks": checks,
 "not_applicable": na,
 "notes": "Genuine defects found and repaired by fix: commits in /repo are listed in /verif/known_findings.json (status fixed; they suppress nothing). Exit codes: 0 held, 1 VIOLATION, 2 machinery failure.",
}
json.dump(m, open(os.path.join(V, "MANIFEST.json"), "w"), indent=1)
print("checks:", [c["property_id"] for c in checks], "not_applicable:", len(na))
