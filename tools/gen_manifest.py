#!/usr/bin/env python3
"""Regenerates /verif/MANIFEST.json from the table below (kept in one place so it stays valid)."""
import json, os
V = os.path.dirname(os.path.dirname(os.path.abspath(__file__)))
TRUSTED = ("Trusted base: sha2 compression functions; field/curve arithmetic, point (de)compression and hash-to-curve maps of "
           "p256/p384/p521/curve25519-dalek; rustc. Inputs are covered by shape (the stated finite alphabets), not by value; "
           "cryptographic hardness is not decided.")
# id -> (built, technique, level text, design ref)
P = {
 "C01": (True, "bounded exhaustive exploration of the honest-flow LTS over deviation-bounded input tuples (explicit-state, real API as transition function)",
         "Every input tuple with <=2 (quick) / <=3 (thorough, plus the full boundary product and a hash-block length family) deviations from the default x 20 suites x KSF families is run through the 9 real protocol steps in the production build; in addition all registration/login histories within C16's bounds, the routing population of C07(a) and all matched parameter triples of C05 (explicit-public-key spellings, empty vs absent) are explored with the oracle 'honest, matched behaviour succeeds with equal keys'.", "3/C01"),
 "C02": (True, "exhaustive enumeration of all ordered password pairs of the alphabet on the real login path",
         "All 210 ordered pairs of distinct passwords (single-bit, prefix, case, NUL, empty, 255/256/65535-byte) x 2 settings x 20 suites; each is a path login start -> server start -> client finish -> 3 server-finish candidates; oracle: exactly InvalidLoginError and no server completion.", "3/C02"),
 "C03": (True, "exhaustive enumeration of (pending server state, finalization candidate) transitions of the real ServerLogin::finish",
         "4 pending server states (natively stored and after a bincode/JSON reload) x the complete candidate menu incl. ALL single-bit flips and ALL single-byte substitutions of the genuine message, foreign finalizations, constants, confusable values and tags an outsider could compute from the public transcript; oracle: key iff genuine and matched, else exactly InvalidLoginError.", "3/C03"),
 "C04": (True, "explicit-state enumeration of the response mutation LTS on the real ClientLogin::finish (depth 1 complete + 1- and 2-field splices)",
         "Every single-byte substitution (thorough: all offsets x 255 values), every 1-/2-field splice from 8 donor responses, whole-response swaps and the reflected element are applied to the genuine response of an honest login; oracle: anything that does not decode to the genuine object is rejected.", "3/C04"),
 "C05": (True, "bounded exhaustive exploration of (registration, server, client) parameter triples against a ghost oracle from the specification",
         "Five families of 10-slot parameter triples (deviation-bounded around matched families, all 28x28 boundary-shifted splits, all pairs of long values differing in length/last byte, aliases under a mis-encoded length prefix of a 255..513-byte context or client identity, all credential-id pairs; thorough: full 250k product on 2 suites) are run on the real code; ghost oracle: accept iff effective identities, contexts and credential ids agree.", "3/C05"),
 "C06": (True, "exhaustive enumeration of (registration setting, serving setup, impostor identity choice) on the real login path",
         "The stolen password file is served by the genuine setup and by 4 spliced/unrelated setups under every identity choice of the serving party, over 36 registration/context settings x 20 suites; oracle: only the genuine setup is accepted and the reported keys equal its key.", "3/C06"),
 "C07": (True, "explicit-state model checking: complete adversarial routing product + BFS over all call interleavings on a shared RNG (own explorer, stateright cross-count)",
         "(a) For the population the property states, every response is delivered to every client session and every finalization to every server session (complete routing product) in several generation orders; (b) BFS over all causally valid interleavings of the generating calls on shared and per-party RNGs with the routing product as invariant in every maximal state; ghost matched-conversation oracle.", "3/C07"),
 "C08": (True, "explicit-state BFS over histories of fake attempts and real logins on one server tape (own explorer, stateright cross-count)",
         "All histories up to depth 3-5 over {6 fake attempts (3 credential ids incl. empty x 2 requests), real login} x 2 settings x 20 suites; invariant on the newest fake attempt against all earlier ones (structure, evaluation = model, no response field and no part of the pending state repeats, masking key identified as a fresh draw, same client error, no server completion incl. publicly computable tags).", "3/C08"),
 "C09": (True, "lock-step exploration of implementation and an independent executable RFC 9807/9497 reference model over deviation-bounded inputs",
         "Every explored flow (C01's input space, with and without a password file, 3 KSF families) is executed on the implementation and on a reference model that shares no code with opaque-ke/voprf and reproduces all 9 RFC vectors; all messages, states and keys are compared byte-for-byte, random choices being witnessed by search over recorded draws.", "3/C09"),
 "C10": (True, "explicit-state enumeration of the decoder mutation LTS on the real decoders (depth 1 complete, depth 2 on tags)",
         "Every action of a finite mutation alphabet (truncate to every length, extend by 1..64, set any byte, alias arithmetic) is applied to every valid root encoding of all 11 decoders x 20 suites and the canonicity invariant (decode ok => re-encode identical) is evaluated in every resulting state; thorough = every offset x all 255 values plus depth 2 on tag bytes.", "3/C10"),
 "C11": (True, "exhaustive enumeration of (decoder, field, invalid-encoding, codec) injections on the real decoders",
         "Complete product of every group-element/scalar field of every message and state x a ground-truth-checked menu of invalid encodings x {native, bincode, JSON}, all other fields honest; plus the masked server key through the client's final step. Oracle: Err.", "3/C11"),
 "C12": (True, "exhaustive fault/mutation enumeration on every protocol step under a panic and time monitor",
         "All truncations, extensions and bit flips of each of 13 (step, artefact) slots fed to the consuming step, foreign artefacts of other sessions/servers/suites, 256 tape strings per slot, 8 boundary lengths for every length-carrying parameter, the key-pair API on mutated keys, and the serde decoders of all 11 types on mutated bincode bytes and JSON text; every call of every driver is additionally monitored (catch_unwind, time limit, hang watchdog). Oracle: Ok/Err value; over-limit inputs refused, never truncated or wrapped.", "3/C12"),
 "C13": (True, "explicit-state BFS of the crash-point LTS (reload choice at each persistence point) with state merging; differential oracle",
         "(a) At each of six persistence points the reload choice {none, native, bincode, JSON (+ double reloads)} is explored as an LTS whose byte-equal states merge, covering all 4^6 (6^6) reload subsets; (b) a truly uninterrupted baseline - the whole flow incl. a no-record login with every party's state kept in memory as typed objects - is compared with the same flow under every reload plan with <=2 (quick) / <=3 (thorough; all 4096 on 2 suites) reloads; oracle: identical to the uninterrupted run on the same tapes.", "3/C13"),
 "C14": (True, "exhaustive product of registrations with an all-pairs relational oracle",
         "Full product 4 passwords x 7 credential ids x 2 seeds x 2 static keys x 3 blinding tapes per suite; masking keys equal iff (pw, cid, seed) equal over ALL pairs; requests differ across blinding tapes; the evaluation through 4 paths equals the reference model.", "3/C14"),
 "C15": (True, "exhaustive enumeration of KSF instance pairs with fault injection at the n-th KSF call (harness-defined Ksf)",
         "All (registration instance, login instance) pairs over {absent, explicit default, id1, id2} x 2 passwords on 20 suites with a logging KSF, failure at call 1 and 2 of each finish step; Argon2 parameter pairs on 3 suites; oracle: one call, on the OPRF output, with the passed instance; success iff equal.", "3/C15"),
 "C16": (True, "explicit-state BFS over registration/login histories (own explorer, stateright cross-count)",
         "All histories of Register(user, password, server), Register-on-a-failing-generator and Login(user, server, context) within the operation bounds; invariant on every transition: export key stable per record, pairwise distinct across registrations, no secret verbatim in any message or file. Plus the complete same-tape grid (7 users incl. two 1000-byte identifiers differing in the last byte x 2 passwords x 2 servers from one tape position): export keys pairwise distinct, login returns the record's key.", "3/C16"),
 "C17": (True, "exhaustive enumeration of tape fork points per randomness-consuming operation (controlled RNG = the only nondeterminism)",
         "Each of 8 operations is re-executed on tapes forked at every draw boundary (thorough: every byte offset), at 0 and beyond the consumption end, and on generators that fail at every draw position; a single-threaded prelude runs every operation twice back to back and a menu of calls with different inputs (incl. near-miss seeds) in three orders; every sequence of <=3 operations runs on one long-lived in-memory ServerSetup. Demanded: determinism, no hidden state (order independence, long-lived object = fresh object), no dependence on unread tape, every random field varies with the tape (also when the generator fails), no coincidences.", "3/C17"),
 "C18": (True, "exhaustive fault enumeration over the external-key interface (fail at the n-th call for every n) with a differential oracle",
         "6 operations x 3 settings x 20 suites, clean and with a harness-defined handle-style external key (it serializes to an opaque decoy handle, never to the key) failing at every call position up to calls+1; oracle: byte-identical to the direct-key server, only public_key/diffie_hellman used, failure returned as that error.", "3/C18"),
 "C19": (True, "exhaustive enumeration of a key alphabet (all ordered pairs) and seeds against reference arithmetic",
         "Per suite: seeded derivation for 5 seeds equals the reference DeriveDiffieHellmanKeyPair; for a key alphabet of special, derived and sampled keys: all ordered pairs for DH symmetry, three-way public-key consistency, encode/decode round trips.", "3/C19"),
}
REASON_TODO = "check not built yet in this round (planned, see DESIGN.md section 3); not claimed until its driver exists"
ALL = ["C%02d" % i for i in range(1, 20)]
checks, na = [], []
for pid in ALL:
    built, tech, text, ref = P.get(pid, (False, "", "", ""))
    if not built:
        na.append({"property_id": pid, "reason": REASON_TODO})
        continue
    checks.append({
        "property_id": pid,
        "quick_cmd": "./check %s quick" % pid,
        "thorough_cmd": "./check %s thorough" % pid,
        "evidence_file": "/verif/evidence/%s.json" % pid,
        "replay_cmd_template": "./check --replay {path}",
        "engine": "mc",
        "level_claimed": {"category": "model_checking", "text": text, "design_ref": "DESIGN.md section " + ref + "; as built: 10.6 (additions per property), 10.5 (which seeded changes each check reports)"},
        "level_note": TRUSTED,
        "technique": tech,
    })
m = {
 "version": 1,
 "setup_cmd": "./check --build",
 "hooks": {"guard": "opaque_ke_verif", "enable": "no hook is needed: the harness links opaque-ke as an ordinary path dependency (production cfg) and observes everything through the public API and harness-defined Ksf/SecretKey implementations; the guard name is reserved (RUSTFLAGS=\"--cfg opaque_ke_verif\") and unused",
           "baseline_off_cmd": "cd /repo && cargo test --workspace --no-fail-fast --offline", "source_commits": [], "add_only": True},
 "engines": [{"name": "mc", "path": "/verif/mc", "serves_properties": [c["property_id"] for c in checks],
              "kind_free_text": "explicit-state / bounded exhaustive explorer whose transition function is the real opaque-ke API (Rust, rayon); stateright 0.31 as independent state-count cross-check"}],
 "checks": checks,
 "not_applicable": na,
 "notes": "Genuine defects found and repaired by fix: commits in /repo are listed in /verif/known_findings.json (status fixed; they suppress nothing). Exit codes: 0 held, 1 VIOLATION, 2 machinery failure.",
}
json.dump(m, open(os.path.join(V, "MANIFEST.json"), "w"), indent=1)
print("checks:", [c["property_id"] for c in checks], "not_applicable:", len(na))
