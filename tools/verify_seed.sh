#!/bin/bash
# tools/verify_seed.sh <dir-with patch.diff + demo *.rs>   confirm a candidate seeded change in a scratch worktree:
#  (1) the patch applies to /repo HEAD, (2) the repository's own suite stays green with it,
#  (3) the demonstration fails with the patch and passes without it.  Prints one summary line.  env W=<worktree>, DEMO_FLAGS=--release
set -u
D="$(cd "$1" && pwd)"; W="${W:-/tmp/vp-seedverify}"
[ -d "$W" ] || git -C /repo worktree add --detach "$W" HEAD -q
git -C "$W" checkout -q --detach "$(git -C /repo rev-parse HEAD)"; git -C "$W" checkout -q -- .; git -C "$W" clean -qfd -e target
demo=$(ls "$D"/*.rs | head -1); name=$(basename "$demo" .rs | tr '-' '_')
mkdir -p "$W/tests"; cp "$demo" "$W/tests/$name.rs"
run_demo() { (cd "$W" && cargo test --offline ${DEMO_FLAGS:-} --features curve25519,argon2 --test "$name" 2>&1 | grep -E "^test result|error(\[|:)" | head -3 | tr '\n' ' '); }
without=$(run_demo)
git -C "$W" apply "$D/patch.diff" 2>/dev/null || { git -C "$W" checkout -q --detach "${FALLBACK_BASE:-$(git -C /repo rev-parse HEAD~1)}"; git -C "$W" apply "$D/patch.diff" || { echo "$(basename "$D"): APPLY-FAILED"; exit 1; }; }
with=$(run_demo)
rm -f "$W/tests/$name.rs"
suite=$(cd "$W" && cargo test --workspace --no-fail-fast --offline 2>&1 | grep -E "^test result" | sed 's/test result: //; s/; 0 measured.*//' | tr '\n' '|')
git -C "$W" checkout -q -- .; rm -f "$W/tests/$name.rs"
echo "$(basename "$D"): suite-with-patch=[$suite] demo-without=[$without] demo-with=[$with]"
