//! Binding of the reference model to the specification: it must reproduce every value of the 9 RFC 9807 /
//! CFRG test vectors (6 real, 3 fake).  Run at the start of every check that uses the model; a failure is a
//! machinery error (exit 2), never a verdict about opaque-ke.
use crate::refmodel::*;
use std::collections::HashMap;

const VECTORS: &str = include_str!("../data/rfc9807_vectors.txt");

fn parse_vectors() -> Vec<(String, HashMap<String, String>)> {
    let mut out: Vec<(String, HashMap<String, String>)> = vec![];
    let mut last_key: Option<String> = None;
    for line in VECTORS.lines() {
        if let Some(t) = line.strip_prefix("### ") {
            out.push((t.to_string(), HashMap::new()));
            last_key = None;
            continue;
        }
        if out.is_empty() {
            continue;
        }
        let m = &mut out.last_mut().unwrap().1;
        if line.starts_with('#') || line.starts_with('~') || line.trim().is_empty() {
            last_key = None;
            continue;
        }
        if let Some((k, v)) = line.split_once(": ") {
            m.insert(k.trim().to_string(), v.trim().to_string());
            last_key = Some(k.trim().to_string());
        } else if let Some(k) = &last_key {
            m.get_mut(k).unwrap().push_str(line.trim());
        }
    }
    out
}
fn hx(m: &HashMap<String, String>, k: &str) -> Vec<u8> {
    hex::decode(m.get(k).unwrap_or_else(|| panic!("vector: missing {k}"))).unwrap()
}
fn hxo(m: &HashMap<String, String>, k: &str) -> Option<Vec<u8>> {
    m.get(k).map(|v| hex::decode(v).unwrap())
}

/// returns (vectors checked, values compared, mismatches)
pub fn selftest() -> (usize, usize, Vec<String>) {
    let mut fails = vec![];
    let mut compared = 0usize;
    let vs = parse_vectors();
    for (title, m) in &vs {
        let oprf = m.get("OPRF").unwrap().as_str();
        let group = m.get("Group").unwrap().as_str();
        let want = match (oprf, group) {
            ("ristretto255-SHA512", "ristretto255") => "RisRis",
            ("ristretto255-SHA512", "curve25519") => "RisC25",
            ("P256-SHA256", g) if g.starts_with("P256") => "P256P256",
            x => panic!("vector: unknown suite {:?}", x),
        };
        let sp = spec_by_name(want);
        let id = |x: &[u8]| x.to_vec();
        let ctx = hx(m, "Context");
        let idc = hxo(m, "client_identity");
        let ids = hxo(m, "server_identity");
        let ids_ = Ids { client: idc.as_deref(), server: ids.as_deref() };
        let mut check = |what: &str, got: &[u8], exp: &[u8]| {
            compared += 1;
            if got != exp {
                fails.push(format!("{title}: {what}"));
            }
        };
        let (ssk, spk) = (hx(m, "server_private_key"), hx(m, "server_public_key"));
        let seed = hx(m, "oprf_seed");
        let cred = hx(m, "credential_identifier");
        if title.contains("Real") {
            let pw = hx(m, "password");
            check("server pk", &sp.ke.pubkey(&ssk), &spk);
            check("oprf_key", &sp.oprf_key(&seed, &cred), &hx(m, "oprf_key"));
            let br = hx(m, "blind_registration");
            let req = sp.oprf.blind(&pw, &br);
            check("registration_request", &req, &hx(m, "registration_request"));
            let resp = sp.registration_response(&seed, &cred, &spk, &req);
            check("registration_response", &resp, &hx(m, "registration_response"));
            let (rpwd, _) = sp.randomized_pwd(&pw, &br, &resp[..sp.noe()], &id);
            check("randomized_password", &rpwd, &hx(m, "randomized_password"));
            let st = sp.store(&rpwd, &spk, &ids_, &hx(m, "envelope_nonce"));
            check("envelope", &st.envelope, &hx(m, "envelope"));
            check("auth_key", &st.auth_key, &hx(m, "auth_key"));
            check("client_public_key", &st.client_pk, &hx(m, "client_public_key"));
            check("registration_upload", &sp.record(&st), &hx(m, "registration_upload"));
            check("export_key", &st.export_key, &hx(m, "export_key"));
            let bl = hx(m, "blind_login");
            let (cesk, cepk) = sp.derive_dh_keypair(&hx(m, "client_keyshare_seed"));
            let ke1 = cat(&[&sp.oprf.blind(&pw, &bl), &hx(m, "client_nonce"), &cepk]);
            check("KE1", &ke1, &hx(m, "KE1"));
            let k2 = sp.ke2(&seed, &cred, &ssk, &spk, &st.client_pk, &st.masking_key, &st.envelope, &ke1, &ctx, &ids_, &hx(m, "masking_nonce"), &hx(m, "server_nonce"), &hx(m, "server_keyshare_seed"));
            check("KE2", &k2.ke2, &hx(m, "KE2"));
            check("session_key(server)", &k2.session_key, &hx(m, "session_key"));
            check("KE3(expected)", &k2.expected_client_mac, &hx(m, "KE3"));
            match sp.ke3(&pw, &bl, &cesk, &ke1, &k2.ke2, &ctx, &ids_, &id) {
                Ok((ke3, sk, ek, _)) => {
                    check("KE3", &ke3, &hx(m, "KE3"));
                    check("session_key", &sk, &hx(m, "session_key"));
                    check("export_key(login)", &ek, &hx(m, "export_key"));
                }
                Err(e) => fails.push(format!("{title}: model client failed: {e}")),
            }
        } else {
            let ke1 = hx(m, "KE1");
            let fake_pk = hx(m, "client_public_key");
            let zero_env = vec![0u8; NN + sp.nh()];
            let k2 = sp.ke2(&seed, &cred, &ssk, &spk, &fake_pk, &hx(m, "masking_key"), &zero_env, &ke1, &ctx, &ids_, &hx(m, "masking_nonce"), &hx(m, "server_nonce"), &hx(m, "server_keyshare_seed"));
            check("fake KE2", &k2.ke2, &hx(m, "KE2"));
        }
    }
    (vs.len(), compared, fails)
}

/// abort with exit code 2 unless the model reproduces the RFC vectors
pub fn require() -> (usize, usize) {
    let (n, c, fails) = selftest();
    if n != 9 || !fails.is_empty() {
        eprintln!("machinery error: reference model does not reproduce the RFC 9807 vectors ({} vectors, {} mismatches): {:?}", n, fails.len(), fails);
        std::process::exit(2);
    }
    (n, c)
}
