//! mc - model checker for the opaque-ke properties C01..C19.  Usage:
//!   mc <Cxx> [quick|thorough]        run the check for one property (VERIF_SEED, VERIF_TIER honoured)
//!   mc --replay <file>               re-execute a recorded violating trace, no explorer involved
//!   mc --selftest                    reference model vs. RFC vectors
#![allow(dead_code, unused_imports, unused_mut, clippy::all)]
mod adapter;
mod alphabet;
mod api;
mod explore;
mod flow;
mod groups;
mod fw;
mod props;
mod refmodel;
mod tape;
mod vectors;

use fw::Tier;

fn main() {
    // the API monitor turns panics into values; keep the default hook from flooding stderr
    if std::env::var("VERIF_PANIC_TRACE").is_err() { std::panic::set_hook(Box::new(|_| {})); }
    let args: Vec<String> = std::env::args().collect();
    if args.len() < 2 {
        eprintln!("usage: mc <Cxx> [quick|thorough] | --replay <file> | --selftest");
        std::process::exit(2);
    }
    let threads: usize = std::env::var("VERIF_THREADS").ok().and_then(|s| s.parse().ok()).unwrap_or(16);
    rayon::ThreadPoolBuilder::new().num_threads(threads).stack_size(16 << 20).build_global().unwrap();
    match args[1].as_str() {
        "--replay" => std::process::exit(fw::replay(&args[2])),
        "--probe-degenerate" => {
            // experiment: which operations terminate on degenerate generators (run single-threaded; prints as it goes)
            use crate::adapter::Blob;
            let which: usize = args.get(2).and_then(|x| x.parse().ok()).unwrap_or(0);
            let period: usize = args.get(3).and_then(|x| x.parse().ok()).unwrap_or(0);
            let api = props::common::all_apis()[which];
            let mk = |n: &str| tape::Tape::degenerate(&format!("deg/{}", n), period);
            println!("suite {} period {}", api.name(), period);
            let setup = api.setup(&mut mk("a"));
            println!("setup {:?}", setup.as_ref().map(|s| s.len()));
            let setup = setup.unwrap();
            let r = api.reg_start(&mut mk("b"), b"pw");
            println!("reg_start {:?}", r.as_ref().map(|s| s.0.len()));
            let (req, creg) = r.unwrap();
            let resp = api.sreg_start(&Blob::n(&setup), &Blob::n(&req), b"c").unwrap();
            let f = api.reg_finish(&mut mk("c"), &Blob::n(&creg), b"pw", &Blob::n(&resp), None, None, None);
            println!("reg_finish {:?}", f.as_ref().map(|s| s.0.len()));
            let (up, _, _) = f.unwrap();
            let l = api.login_start(&mut mk("d"), b"pw");
            println!("login_start {:?}", l.as_ref().map(|s| s.0.len()));
            let (ke1, cl) = l.unwrap();
            let s2 = api.slogin_start(&mut mk("e"), &Blob::n(&setup), Some(&Blob::n(&up)), &Blob::n(&ke1), b"c", None, None, None);
            println!("slogin_start {:?}", s2.as_ref().map(|s| s.0.len()));
            let (ke2, _sl) = s2.unwrap();
            let s3 = api.slogin_start(&mut mk("e"), &Blob::n(&setup), None, &Blob::n(&ke1), b"c", None, None, None);
            println!("slogin_start(no record) {:?}", s3.as_ref().map(|s| s.0.len()));
            let fin = api.login_finish(&Blob::n(&cl), b"pw", &Blob::n(&ke2), None, None, None, None);
            println!("login_finish {:?}", fin.as_ref().map(|s| s.0.len()));
            std::process::exit(0);
        }
        "--selftest" => {
            let (n, c, f) = vectors::selftest();
            println!("vectors={} compared={} mismatches={:?}", n, c, f);
            std::process::exit(if f.is_empty() && n == 9 { 0 } else { 2 });
        }
        _ => {}
    }
    let prop = args[1].clone();
    let tier = match args.get(2).map(|s| s.as_str()).or(std::env::var("VERIF_TIER").ok().as_deref()) {
        Some("thorough") => Tier::Thorough,
        Some("quick") | None => Tier::Quick,
        Some(o) => {
            eprintln!("unknown tier {o}");
            std::process::exit(2)
        }
    };
    let seed: u64 = std::env::var("VERIF_SEED").ok().and_then(|s| s.parse().ok()).unwrap_or(0);
    // hang watchdog: a single API call that runs longer than VERIF_HANG_MS (default 150 s) is non-termination.
    // For C12 that is a violation of the property; for any other check the property cannot be decided: exit 2.
    {
        let prop = prop.clone();
        let limit: u64 = std::env::var("VERIF_HANG_MS").ok().and_then(|s| s.parse().ok()).unwrap_or(150_000);
        std::thread::spawn(move || loop {
            std::thread::sleep(std::time::Duration::from_millis(1000));
            let ov = api::HANG_LIMIT_OVERRIDE_MS.load(std::sync::atomic::Ordering::Relaxed);
            let lim = if ov > 0 { ov } else { limit };
            if let Some((op, case, secs)) = api::hung_call(lim) {
                let verif = fw::verif_dir();
                let _ = std::fs::create_dir_all(format!("{}/replays", verif));
                let path = format!("{}/replays/{}-hang-{}.json", verif, prop, op);
                let body = serde_json::json!({"property": "C12", "key": format!("hang/{}", op), "what": format!("API call {} has not returned after {} s", op, secs), "case": case, "trace": []});
                let _ = std::fs::write(&path, serde_json::to_vec_pretty(&body).unwrap());
                if prop == "C12" {
                    println!("VIOLATION property=C12 replay={}", path);
                    println!("  key=hang/{} : API call {} has not returned after {} s; case: {}", op, op, secs, case);
                    std::process::exit(1);
                } else {
                    eprintln!("machinery error: API call {} has not returned after {} s (non-termination is C12's business; {} cannot be decided); case: {}", op, secs, prop, case);
                    std::process::exit(2);
                }
            }
        });
    }
    // a panic of the harness itself (not of opaque-ke: those are caught per API call) is a machinery error
    let code = match std::panic::catch_unwind(|| props::run(&prop, tier, seed)) {
        Ok(c) => c,
        Err(p) => {
            let msg = p.downcast_ref::<String>().cloned().or_else(|| p.downcast_ref::<&str>().map(|s| s.to_string())).unwrap_or_default();
            eprintln!("machinery error: the harness panicked: {} (set VERIF_PANIC_TRACE=1 for a backtrace)", msg);
            2
        }
    };
    std::process::exit(code);
}
