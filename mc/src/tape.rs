//! Deterministic, recording, forkable RNG ("tape").  DESIGN.md section 2.2.
//!
//! Byte i of the stream named `label` is SHA-256(SHA-256(label) || le64(i / 32))[i % 32].  A tape may be
//! *forked*: identical to stream `label` for the first `at` bytes and equal to the independent stream
//! `alt` (at the same positions) afterwards.  Every `fill_bytes` call is recorded as one draw.
use rand::{CryptoRng, RngCore};
use serde::{Deserialize, Serialize};
use sha2::{Digest, Sha256};

/// Everything needed to reconstruct a tape at a position (used in replay files and in LTS states).
#[derive(Clone, Debug, PartialEq, Eq, Hash, Serialize, Deserialize)]
pub struct TapeSpec {
    pub label: String,
    pub pos: usize,
    pub fork: Option<(String, usize)>,
    /// the generator fails for every draw that would read byte `fail_at` or beyond
    #[serde(default)]
    pub fail_at: Option<usize>,
    /// degenerate generator: Some(0) = every byte is the first byte of the stream (a constant generator);
    /// Some(n) = the first n bytes of the stream repeated forever (period n)
    #[serde(default)]
    pub period: Option<usize>,
    /// constant generator producing this byte forever (e.g. the all-zero generator)
    #[serde(default)]
    pub const_byte: Option<u8>,
}
/// panic message prefix of a failing tape's infallible draw (recognised by the API monitor: an RNG failure, not a
/// panic of the library)
pub const TAPE_FAULT: &str = "TAPE-FAULT";

#[derive(Clone)]
struct Stream {
    seed: [u8; 32],
    blk_no: u64,
    blk: [u8; 32],
}
impl Stream {
    fn new(label: &str) -> Self {
        let seed: [u8; 32] = Sha256::digest(label.as_bytes()).into();
        let mut s = Stream { seed, blk_no: u64::MAX, blk: [0; 32] };
        s.load(0);
        s
    }
    fn load(&mut self, n: u64) {
        if self.blk_no != n {
            let mut h = Sha256::new();
            h.update(self.seed);
            h.update(n.to_le_bytes());
            self.blk = h.finalize().into();
            self.blk_no = n;
        }
    }
    fn byte(&mut self, i: usize) -> u8 {
        self.load((i / 32) as u64);
        self.blk[i % 32]
    }
}

#[derive(Clone)]
pub struct Tape {
    label: String,
    main: Stream,
    alt: Option<(String, Stream, usize)>,
    /// degenerate generator (see TapeSpec::period)
    pub period: Option<usize>,
    pub const_byte: Option<u8>,
    /// fault injection: draws reaching this byte position fail (try_fill_bytes -> Err, fill_bytes -> panic, as OsRng)
    pub fail_at: Option<usize>,
    /// absolute position (bytes drawn since the start of the stream)
    pub pos: usize,
    /// draws made through this handle: (offset, bytes)
    pub log: Vec<(usize, Vec<u8>)>,
}

impl Tape {
    pub fn new(label: &str) -> Self {
        Tape { label: label.to_string(), main: Stream::new(label), alt: None, period: None, const_byte: None, fail_at: None, pos: 0, log: vec![] }
    }
    /// tape for `label` derived from the global seed (VERIF_SEED)
    pub fn seeded(seed: u64, label: &str) -> Self {
        Tape::new(&format!("seed{}/{}", seed, label))
    }
    pub fn at(label: &str, pos: usize) -> Self {
        let mut t = Tape::new(label);
        t.pos = pos;
        t
    }
    /// identical to `label` before byte `at`, equal to stream `alt` from byte `at` on
    pub fn forked(label: &str, alt: &str, at: usize) -> Self {
        let mut t = Tape::new(label);
        t.alt = Some((alt.to_string(), Stream::new(alt), at));
        t
    }
    pub fn spec(&self) -> TapeSpec {
        TapeSpec { label: self.label.clone(), pos: self.pos, fork: self.alt.as_ref().map(|(l, _, a)| (l.clone(), *a)), fail_at: self.fail_at, period: self.period, const_byte: self.const_byte }
    }
    pub fn from_spec(s: &TapeSpec) -> Self {
        let mut t = match &s.fork {
            Some((alt, at)) => Tape::forked(&s.label, alt, *at),
            None => Tape::new(&s.label),
        };
        t.pos = s.pos;
        t.fail_at = s.fail_at;
        t.period = s.period;
        t.const_byte = s.const_byte;
        t
    }
    /// the generator that produces `b` forever
    pub fn constant(b: u8) -> Self {
        let mut t = Tape::new("constant");
        t.const_byte = Some(b);
        t
    }
    /// a degenerate generator: constant (period 0 -> every byte equals byte 0 of the stream) or periodic
    pub fn degenerate(label: &str, period: usize) -> Self {
        let mut t = Tape::new(label);
        t.period = Some(period);
        t
    }
    pub fn label(&self) -> &str {
        &self.label
    }
    /// draws recorded so far, cleared
    pub fn take_log(&mut self) -> Vec<(usize, Vec<u8>)> {
        std::mem::take(&mut self.log)
    }
    /// the recorded draws as plain byte strings
    pub fn take_draws(&mut self) -> Vec<Vec<u8>> {
        self.take_log().into_iter().map(|(_, b)| b).collect()
    }
    /// peek n bytes at the current position without consuming or recording
    pub fn peek(&self, n: usize) -> Vec<u8> {
        let mut c = self.clone();
        let mut v = vec![0u8; n];
        c.fill_bytes(&mut v);
        v
    }
}

impl RngCore for Tape {
    fn next_u32(&mut self) -> u32 {
        let mut b = [0u8; 4];
        self.fill_bytes(&mut b);
        u32::from_le_bytes(b)
    }
    fn next_u64(&mut self) -> u64 {
        let mut b = [0u8; 8];
        self.fill_bytes(&mut b);
        u64::from_le_bytes(b)
    }
    fn fill_bytes(&mut self, dest: &mut [u8]) {
        if let Some(f) = self.fail_at {
            if self.pos + dest.len() > f {
                panic!("{}: the random generator failed at byte {}", TAPE_FAULT, f);
            }
        }
        let start = self.pos;
        for d in dest.iter_mut() {
            let i = match self.period {
                Some(0) => 0,
                Some(n) => self.pos % n,
                None => self.pos,
            };
            *d = match (self.const_byte, &mut self.alt) {
                (Some(c), _) => c,
                (None, Some((_, s, at))) if i >= *at => s.byte(i),
                _ => self.main.byte(i),
            };
            self.pos += 1;
        }
        self.log.push((start, dest.to_vec()));
    }
    fn try_fill_bytes(&mut self, dest: &mut [u8]) -> Result<(), rand::Error> {
        if let Some(f) = self.fail_at {
            if self.pos + dest.len() > f {
                return Err(rand::Error::new(TAPE_FAULT));
            }
        }
        self.fill_bytes(dest);
        Ok(())
    }
}
impl CryptoRng for Tape {}

#[cfg(test)]
mod tests {
    use super::*;
    #[test]
    fn fork_and_position() {
        let mut a = Tape::new("a");
        let mut x = [0u8; 100];
        a.fill_bytes(&mut x);
        let mut f = Tape::forked("a", "b", 40);
        let mut y = [0u8; 100];
        f.fill_bytes(&mut y);
        assert_eq!(x[..40], y[..40]);
        assert_ne!(x[40..], y[40..]);
        let mut p = Tape::at("a", 10);
        let mut z = [0u8; 20];
        p.fill_bytes(&mut z);
        assert_eq!(z, x[10..30]);
        let s = p.spec();
        let mut q = Tape::from_spec(&s);
        let mut w = [0u8; 5];
        q.fill_bytes(&mut w);
        assert_eq!(w, x[30..35]);
    }
}
