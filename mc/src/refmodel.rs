//! Executable reference model of OPAQUE-3DH (RFC 9807) over OPRF mode 0 (RFC 9497).
//! Written from the RFC text; shares NO code with opaque-ke or voprf.  Trusted base:
//! sha2 (compression functions), curve arithmetic + SSWU/elligator maps of p256/p384/p521/
//! curve25519-dalek.  HMAC, HKDF, expand_message_xmd, hash_to_field for scalars, DeriveKeyPair,
//! the OPRF, the envelope, the credential-response mask and the 3DH key schedule are hand-written.
#![allow(dead_code)]

use sha2::Digest;

#[derive(Clone, Copy, Debug, PartialEq, Eq)]
pub enum H {
    S256,
    S384,
    S512,
}
impl H {
    pub fn len(self) -> usize {
        match self {
            H::S256 => 32,
            H::S384 => 48,
            H::S512 => 64,
        }
    }
    pub fn block(self) -> usize {
        match self {
            H::S256 => 64,
            _ => 128,
        }
    }
    pub fn hash(self, parts: &[&[u8]]) -> Vec<u8> {
        macro_rules! go {
            ($t:ty) => {{
                let mut h = <$t>::new();
                for p in parts {
                    h.update(p);
                }
                h.finalize().to_vec()
            }};
        }
        match self {
            H::S256 => go!(sha2::Sha256),
            H::S384 => go!(sha2::Sha384),
            H::S512 => go!(sha2::Sha512),
        }
    }
}

pub fn cat(parts: &[&[u8]]) -> Vec<u8> {
    let mut v = Vec::new();
    for p in parts {
        v.extend_from_slice(p);
    }
    v
}
pub fn i2osp(n: usize, len: usize) -> Vec<u8> {
    assert!(len >= 8 || n < (1usize << (8 * len)), "I2OSP overflow");
    let b = (n as u64).to_be_bytes();
    let mut v = vec![0u8; len];
    for i in 0..len.min(8) {
        v[len - 1 - i] = b[7 - i];
    }
    v
}
fn xor(a: &[u8], b: &[u8]) -> Vec<u8> {
    assert_eq!(a.len(), b.len());
    a.iter().zip(b).map(|(x, y)| x ^ y).collect()
}

/// RFC 2104
pub fn hmac(h: H, key: &[u8], parts: &[&[u8]]) -> Vec<u8> {
    let mut k = if key.len() > h.block() { h.hash(&[key]) } else { key.to_vec() };
    k.resize(h.block(), 0);
    let ipad: Vec<u8> = k.iter().map(|b| b ^ 0x36).collect();
    let opad: Vec<u8> = k.iter().map(|b| b ^ 0x5c).collect();
    let mut inner_parts: Vec<&[u8]> = vec![&ipad];
    inner_parts.extend_from_slice(parts);
    let inner = h.hash(&inner_parts);
    h.hash(&[&opad, &inner])
}
/// RFC 5869
pub fn hkdf_extract(h: H, salt: &[u8], ikm: &[u8]) -> Vec<u8> {
    let zero = vec![0u8; h.len()];
    hmac(h, if salt.is_empty() { &zero } else { salt }, &[ikm])
}
pub fn hkdf_expand(h: H, prk: &[u8], info: &[u8], len: usize) -> Vec<u8> {
    assert!(len <= 255 * h.len());
    let mut out = Vec::new();
    let mut t: Vec<u8> = vec![];
    let mut i = 1u8;
    while out.len() < len {
        t = hmac(h, prk, &[&t, info, &[i]]);
        out.extend_from_slice(&t);
        i = i.wrapping_add(1);
    }
    out.truncate(len);
    out
}
/// RFC 9380 section 5.3.1
pub fn expand_message_xmd(h: H, msg: &[u8], dst: &[u8], len: usize) -> Vec<u8> {
    let b = h.len();
    let ell = (len + b - 1) / b;
    assert!(ell <= 255 && len <= 65535 && dst.len() <= 255);
    let dst_prime = cat(&[dst, &i2osp(dst.len(), 1)]);
    let z_pad = vec![0u8; h.block()];
    let b0 = h.hash(&[&z_pad, msg, &i2osp(len, 2), &[0u8], &dst_prime]);
    let mut bi = h.hash(&[&b0, &[1u8], &dst_prime]);
    let mut out = bi.clone();
    for i in 2..=ell {
        bi = h.hash(&[&xor(&b0, &bi), &[i as u8], &dst_prime]);
        out.extend_from_slice(&bi);
    }
    out.truncate(len);
    out
}

/// A prime-order group, byte-level.
pub trait Grp: Sync {
    fn name(&self) -> &'static str;
    fn elem_len(&self) -> usize;
    fn scalar_len(&self) -> usize;
    /// hash_to_group with the group's own RFC 9380 suite and hash `h`
    fn hash_to_group(&self, h: H, msg: &[u8], dst: &[u8]) -> Vec<u8>;
    /// hash_to_field(msg, 1) mod group order, with expand_message_xmd over `h`
    fn hash_to_scalar(&self, h: H, msg: &[u8], dst: &[u8]) -> Vec<u8>;
    fn mul(&self, elem: &[u8], scalar: &[u8]) -> Vec<u8>;
    fn mul_base(&self, scalar: &[u8]) -> Vec<u8>;
    fn inv(&self, scalar: &[u8]) -> Vec<u8>;
    fn is_zero(&self, scalar: &[u8]) -> bool {
        scalar.iter().all(|b| *b == 0)
    }
}

pub struct Ristretto;
impl Grp for Ristretto {
    fn name(&self) -> &'static str {
        "ristretto255"
    }
    fn elem_len(&self) -> usize {
        32
    }
    fn scalar_len(&self) -> usize {
        32
    }
    fn hash_to_group(&self, h: H, msg: &[u8], dst: &[u8]) -> Vec<u8> {
        let u: [u8; 64] = expand_message_xmd(h, msg, dst, 64).try_into().unwrap();
        curve25519_dalek::ristretto::RistrettoPoint::from_uniform_bytes(&u).compress().to_bytes().to_vec()
    }
    fn hash_to_scalar(&self, h: H, msg: &[u8], dst: &[u8]) -> Vec<u8> {
        let u: [u8; 64] = expand_message_xmd(h, msg, dst, 64).try_into().unwrap();
        curve25519_dalek::scalar::Scalar::from_bytes_mod_order_wide(&u).to_bytes().to_vec()
    }
    fn mul(&self, elem: &[u8], scalar: &[u8]) -> Vec<u8> {
        let p = curve25519_dalek::ristretto::CompressedRistretto::from_slice(elem).unwrap().decompress().expect("ref: bad ristretto elem");
        let s = curve25519_dalek::scalar::Scalar::from_canonical_bytes(scalar.try_into().unwrap()).unwrap();
        (p * s).compress().to_bytes().to_vec()
    }
    fn mul_base(&self, scalar: &[u8]) -> Vec<u8> {
        let s = curve25519_dalek::scalar::Scalar::from_canonical_bytes(scalar.try_into().unwrap()).unwrap();
        (curve25519_dalek::constants::RISTRETTO_BASEPOINT_POINT * s).compress().to_bytes().to_vec()
    }
    fn inv(&self, scalar: &[u8]) -> Vec<u8> {
        let s = curve25519_dalek::scalar::Scalar::from_canonical_bytes(scalar.try_into().unwrap()).unwrap();
        s.invert().to_bytes().to_vec()
    }
}

macro_rules! nist {
    ($ty:ident, $krate:ident, $curve:ty, $name:expr, $flen:expr, $l:expr, $hash:ty) => {
        pub struct $ty;
        impl $ty {
            fn scalar(b: &[u8]) -> $krate::Scalar {
                use elliptic_curve::ff::PrimeField;
                let mut r = <$krate::Scalar as PrimeField>::Repr::default();
                r.copy_from_slice(b);
                Option::from($krate::Scalar::from_repr(r)).expect("ref: bad scalar")
            }
            fn point(b: &[u8]) -> $krate::ProjectivePoint {
                use elliptic_curve::sec1::FromEncodedPoint;
                assert!(b.len() == $flen + 1 && (b[0] == 2 || b[0] == 3), "ref: only compressed SEC1 points");
                let ep = $krate::EncodedPoint::from_bytes(b).expect("ref: bad point enc");
                let a: $krate::AffinePoint = Option::from($krate::AffinePoint::from_encoded_point(&ep)).expect("ref: bad point");
                a.into()
            }
            fn enc(p: $krate::ProjectivePoint) -> Vec<u8> {
                use elliptic_curve::sec1::ToEncodedPoint;
                p.to_affine().to_encoded_point(true).as_bytes().to_vec()
            }
        }
        impl Grp for $ty {
            fn name(&self) -> &'static str {
                $name
            }
            fn elem_len(&self) -> usize {
                $flen + 1
            }
            fn scalar_len(&self) -> usize {
                $flen
            }
            fn hash_to_group(&self, h: H, msg: &[u8], dst: &[u8]) -> Vec<u8> {
                use elliptic_curve::hash2curve::{ExpandMsgXmd, GroupDigest};
                // the SSWU map is taken from the curve crate (trusted); the hash is the suite's own
                assert_eq!(h.len() * 8, <$hash as sha2::Digest>::output_size() * 8);
                let p = <$curve as GroupDigest>::hash_from_bytes::<ExpandMsgXmd<$hash>>(&[msg], &[dst]).unwrap();
                Self::enc(p)
            }
            fn hash_to_scalar(&self, h: H, msg: &[u8], dst: &[u8]) -> Vec<u8> {
                use elliptic_curve::ff::{Field, PrimeField};
                // L = ceil((ceil(log2(n)) + k) / 8); OS2IP(uniform bytes) mod n done by splitting in halves
                let okm = expand_message_xmd(h, msg, dst, $l);
                let half = $l / 2;
                let pad = |x: &[u8]| {
                    let mut v = vec![0u8; $flen - x.len()];
                    v.extend_from_slice(x);
                    v
                };
                let hi = Self::scalar(&pad(&okm[..half]));
                let lo = Self::scalar(&pad(&okm[half..]));
                let mut shift = $krate::Scalar::ONE;
                for _ in 0..(8 * ($l - half)) {
                    shift = shift.double();
                }
                let r = hi * shift + lo;
                r.to_repr().to_vec()
            }
            fn mul(&self, elem: &[u8], scalar: &[u8]) -> Vec<u8> {
                Self::enc(Self::point(elem) * Self::scalar(scalar))
            }
            fn mul_base(&self, scalar: &[u8]) -> Vec<u8> {
                Self::enc($krate::ProjectivePoint::GENERATOR * Self::scalar(scalar))
            }
            fn inv(&self, scalar: &[u8]) -> Vec<u8> {
                use elliptic_curve::ff::{Field, PrimeField};
                let s: $krate::Scalar = Option::from(Self::scalar(scalar).invert()).unwrap();
                s.to_repr().to_vec()
            }
        }
    };
}
nist!(P256, p256, p256::NistP256, "P256", 32, 48, sha2::Sha256);
nist!(P384, p384, p384::NistP384, "P384", 48, 72, sha2::Sha384);
nist!(P521, p521, p521::NistP521, "P521", 66, 98, sha2::Sha512);

pub struct Oprf {
    pub id: &'static str, // RFC 9497 ciphersuite identifier
    pub h: H,
    pub g: &'static dyn Grp,
}
pub static OPRF_RIS: Oprf = Oprf { id: "ristretto255-SHA512", h: H::S512, g: &Ristretto };
pub static OPRF_P256: Oprf = Oprf { id: "P256-SHA256", h: H::S256, g: &P256 };
pub static OPRF_P384: Oprf = Oprf { id: "P384-SHA384", h: H::S384, g: &P384 };
pub static OPRF_P521: Oprf = Oprf { id: "P521-SHA512", h: H::S512, g: &P521 };

impl Oprf {
    pub fn ctx(&self) -> Vec<u8> {
        cat(&[b"OPRFV1-", &[0u8], b"-", self.id.as_bytes()])
    }
    /// RFC 9497 3.2.1 DeriveKeyPair, generalised to hash into group `g` (for DeriveDiffieHellmanKeyPair)
    pub fn derive_key_in(&self, g: &dyn Grp, seed: &[u8], info: &[u8]) -> Vec<u8> {
        let derive_input = cat(&[seed, &i2osp(info.len(), 2), info]);
        let dst = cat(&[b"DeriveKeyPair", &self.ctx()]);
        for counter in 0..=255usize {
            let sk = g.hash_to_scalar(self.h, &cat(&[&derive_input, &i2osp(counter, 1)]), &dst);
            if !g.is_zero(&sk) {
                return sk;
            }
        }
        panic!("DeriveKeyPairError")
    }
    pub fn blind(&self, input: &[u8], blind: &[u8]) -> Vec<u8> {
        let dst = cat(&[b"HashToGroup-", &self.ctx()]);
        let p = self.g.hash_to_group(self.h, input, &dst);
        self.g.mul(&p, blind)
    }
    pub fn blind_evaluate(&self, sk: &[u8], blinded: &[u8]) -> Vec<u8> {
        self.g.mul(blinded, sk)
    }
    pub fn finalize(&self, input: &[u8], blind: &[u8], evaluated: &[u8]) -> Vec<u8> {
        let n = self.g.mul(evaluated, &self.g.inv(blind));
        self.h.hash(&[&i2osp(input.len(), 2), input, &i2osp(n.len(), 2), &n, b"Finalize"])
    }
}

#[derive(Clone, Copy)]
pub enum Ke {
    Prime(&'static dyn Grp),
    X25519,
}
impl Ke {
    pub fn name(&self) -> &'static str {
        match self {
            Ke::Prime(g) => g.name(),
            Ke::X25519 => "curve25519",
        }
    }
    pub fn npk(&self) -> usize {
        match self {
            Ke::Prime(g) => g.elem_len(),
            Ke::X25519 => 32,
        }
    }
    pub fn nsk(&self) -> usize {
        match self {
            Ke::Prime(g) => g.scalar_len(),
            Ke::X25519 => 32,
        }
    }
    pub fn pubkey(&self, sk: &[u8]) -> Vec<u8> {
        match self {
            Ke::Prime(g) => g.mul_base(sk),
            Ke::X25519 => {
                let mut u9 = [0u8; 32];
                u9[0] = 9;
                self.dh(sk, &u9)
            }
        }
    }
    pub fn dh(&self, sk: &[u8], pk: &[u8]) -> Vec<u8> {
        match self {
            Ke::Prime(g) => g.mul(pk, sk),
            Ke::X25519 => {
                // RFC 7748 X25519(k, u): decodeScalar25519 clamps
                let k: [u8; 32] = sk.try_into().unwrap();
                let u: [u8; 32] = pk.try_into().unwrap();
                curve25519_dalek::montgomery::MontgomeryPoint(u).mul_clamped(k).to_bytes().to_vec()
            }
        }
    }
}

pub struct Spec {
    pub name: &'static str,
    pub oprf: &'static Oprf,
    pub ke: Ke,
}

pub const NN: usize = 32;

pub struct Ids<'a> {
    pub client: Option<&'a [u8]>,
    pub server: Option<&'a [u8]>,
}

pub struct StoreOut {
    pub envelope: Vec<u8>,
    pub client_pk: Vec<u8>,
    pub client_sk: Vec<u8>,
    pub masking_key: Vec<u8>,
    pub export_key: Vec<u8>,
    pub auth_key: Vec<u8>,
}

pub struct Ke2Out {
    pub ke2: Vec<u8>,
    pub session_key: Vec<u8>,
    pub expected_client_mac: Vec<u8>,
    pub km3: Vec<u8>,
    pub hashed_transcript_with_mac: Vec<u8>,
}

impl Spec {
    pub fn h(&self) -> H {
        self.oprf.h
    }
    pub fn nh(&self) -> usize {
        self.h().len()
    }
    pub fn nseed(&self) -> usize {
        // RFC 9807 fixes Nseed = 32 = Nsk for all suites it defines; suites beyond the RFC use their own Nsk
        self.ke.nsk()
    }
    pub fn noe(&self) -> usize {
        self.oprf.g.elem_len()
    }
    pub fn nok(&self) -> usize {
        self.oprf.g.scalar_len()
    }
    fn expand(&self, prk: &[u8], info: &[u8], len: usize) -> Vec<u8> {
        hkdf_expand(self.h(), prk, info, len)
    }
    fn extract(&self, salt: &[u8], ikm: &[u8]) -> Vec<u8> {
        hkdf_extract(self.h(), salt, ikm)
    }
    fn mac(&self, key: &[u8], msg: &[u8]) -> Vec<u8> {
        hmac(self.h(), key, &[msg])
    }

    /// RFC 9807 2.1: DeriveDiffieHellmanKeyPair
    pub fn derive_dh_keypair(&self, seed: &[u8]) -> (Vec<u8>, Vec<u8>) {
        assert_eq!(seed.len(), self.nseed());
        let sk = match self.ke {
            Ke::Prime(g) => self.oprf.derive_key_in(g, seed, b"OPAQUE-DeriveDiffieHellmanKeyPair"),
            Ke::X25519 => {
                // private key is the seed, "as described in Section 5 of RFC 7748" (decodeScalar25519)
                let mut k = seed.to_vec();
                k[0] &= 248;
                k[31] &= 127;
                k[31] |= 64;
                k
            }
        };
        let pk = self.ke.pubkey(&sk);
        (sk, pk)
    }

    /// the private half of DeriveDiffieHellmanKeyPair only (no scalar multiplication)
    pub fn derive_dh_sk(&self, seed: &[u8]) -> Vec<u8> {
        match self.ke {
            Ke::Prime(g) => self.oprf.derive_key_in(g, seed, b"OPAQUE-DeriveDiffieHellmanKeyPair"),
            Ke::X25519 => {
                let mut k = seed.to_vec();
                k[0] &= 248;
                k[31] &= 127;
                k[31] |= 64;
                k
            }
        }
    }
    /// per-credential OPRF key (RFC 9807 5.2.2 / 6.3.2.2)
    pub fn oprf_key(&self, oprf_seed: &[u8], cred_id: &[u8]) -> Vec<u8> {
        let seed = self.expand(oprf_seed, &cat(&[cred_id, b"OprfKey"]), self.nok());
        self.oprf.derive_key_in(self.oprf.g, &seed, b"OPAQUE-DeriveKeyPair")
    }
    pub fn evaluate(&self, oprf_seed: &[u8], cred_id: &[u8], blinded: &[u8]) -> Vec<u8> {
        self.oprf.blind_evaluate(&self.oprf_key(oprf_seed, cred_id), blinded)
    }
    pub fn registration_response(&self, oprf_seed: &[u8], cred_id: &[u8], server_pk: &[u8], request: &[u8]) -> Vec<u8> {
        cat(&[&self.evaluate(oprf_seed, cred_id, request), server_pk])
    }
    pub fn randomized_pwd(&self, pw: &[u8], blind: &[u8], evaluated: &[u8], ksf: &dyn Fn(&[u8]) -> Vec<u8>) -> (Vec<u8>, Vec<u8>) {
        let oprf_output = self.oprf.finalize(pw, blind, evaluated);
        let stretched = ksf(&oprf_output);
        (self.extract(b"", &cat(&[&oprf_output, &stretched])), oprf_output)
    }
    fn cleartext_credentials(&self, server_pk: &[u8], client_pk: &[u8], ids: &Ids) -> Vec<u8> {
        let ids_s = ids.server.unwrap_or(server_pk);
        let ids_c = ids.client.unwrap_or(client_pk);
        cat(&[server_pk, &i2osp(ids_s.len(), 2), ids_s, &i2osp(ids_c.len(), 2), ids_c])
    }
    /// RFC 9807 4.1.2 Store
    pub fn store(&self, rpwd: &[u8], server_pk: &[u8], ids: &Ids, nonce: &[u8]) -> StoreOut {
        let masking_key = self.expand(rpwd, b"MaskingKey", self.nh());
        let auth_key = self.expand(rpwd, &cat(&[nonce, b"AuthKey"]), self.nh());
        let export_key = self.expand(rpwd, &cat(&[nonce, b"ExportKey"]), self.nh());
        let seed = self.expand(rpwd, &cat(&[nonce, b"PrivateKey"]), self.nseed());
        let (client_sk, client_pk) = self.derive_dh_keypair(&seed);
        let ct = self.cleartext_credentials(server_pk, &client_pk, ids);
        let tag = self.mac(&auth_key, &cat(&[nonce, &ct]));
        StoreOut { envelope: cat(&[nonce, &tag]), client_pk, client_sk, masking_key, export_key, auth_key }
    }
    pub fn record(&self, s: &StoreOut) -> Vec<u8> {
        cat(&[&s.client_pk, &s.masking_key, &s.envelope])
    }
    /// masked_response for a record (real or fake)
    pub fn masked_response(&self, masking_key: &[u8], masking_nonce: &[u8], server_pk: &[u8], envelope: &[u8]) -> Vec<u8> {
        let pad = self.expand(masking_key, &cat(&[masking_nonce, b"CredentialResponsePad"]), self.ke.npk() + NN + self.nh());
        xor(&pad, &cat(&[server_pk, envelope]))
    }
    fn expand_label(&self, secret: &[u8], label: &[u8], context: &[u8]) -> Vec<u8> {
        let full = cat(&[b"OPAQUE-", label]);
        let custom = cat(&[&i2osp(self.nh(), 2), &i2osp(full.len(), 1), &full, &i2osp(context.len(), 1), context]);
        self.expand(secret, &custom, self.nh())
    }
    pub fn preamble(&self, context: &[u8], idc: &[u8], ke1: &[u8], ids: &[u8], cred_resp: &[u8], server_nonce: &[u8], server_epk: &[u8]) -> Vec<u8> {
        cat(&[b"OPAQUEv1-", &i2osp(context.len(), 2), context, &i2osp(idc.len(), 2), idc, ke1, &i2osp(ids.len(), 2), ids, cred_resp, server_nonce, server_epk])
    }
    /// returns (km2, km3, session_key, handshake_secret)
    pub fn derive_keys(&self, ikm: &[u8], preamble: &[u8]) -> (Vec<u8>, Vec<u8>, Vec<u8>, Vec<u8>) {
        let prk = self.extract(b"", ikm);
        let th = self.h().hash(&[preamble]);
        let hs = self.expand_label(&prk, b"HandshakeSecret", &th);
        let sk = self.expand_label(&prk, b"SessionKey", &th);
        let km2 = self.expand_label(&hs, b"ServerMAC", b"");
        let km3 = self.expand_label(&hs, b"ClientMAC", b"");
        (km2, km3, sk, hs)
    }
    /// Server side GenerateKE2 given all random choices.
    #[allow(clippy::too_many_arguments)]
    pub fn ke2(&self, oprf_seed: &[u8], cred_id: &[u8], server_sk: &[u8], server_pk: &[u8], record_client_pk: &[u8], record_masking_key: &[u8], record_envelope: &[u8],
        ke1: &[u8], context: &[u8], ids: &Ids, masking_nonce: &[u8], server_nonce: &[u8], server_eseed: &[u8]) -> Ke2Out {
        let blinded = &ke1[..self.noe()];
        let client_epk = &ke1[self.noe() + NN..];
        let evaluated = self.evaluate(oprf_seed, cred_id, blinded);
        let masked = self.masked_response(record_masking_key, masking_nonce, server_pk, record_envelope);
        let cred_resp = cat(&[&evaluated, masking_nonce, &masked]);
        let (esk, epk) = self.derive_dh_keypair(server_eseed);
        let idc = ids.client.unwrap_or(record_client_pk);
        let idsv = ids.server.unwrap_or(server_pk);
        let preamble = self.preamble(context, idc, ke1, idsv, &cred_resp, server_nonce, &epk);
        let ikm = cat(&[&self.ke.dh(&esk, client_epk), &self.ke.dh(server_sk, client_epk), &self.ke.dh(&esk, record_client_pk)]);
        let (km2, km3, session_key, _) = self.derive_keys(&ikm, &preamble);
        let th = self.h().hash(&[&preamble]);
        let server_mac = self.mac(&km2, &th);
        let th2 = self.h().hash(&[&preamble, &server_mac]);
        let expected_client_mac = self.mac(&km3, &th2);
        Ke2Out { ke2: cat(&[&cred_resp, server_nonce, &epk, &server_mac]), session_key, expected_client_mac, km3, hashed_transcript_with_mac: th2 }
    }
    /// Client side: recover credentials and GenerateKE3. Returns Err(reason) on authentication failure.
    #[allow(clippy::too_many_arguments, clippy::type_complexity)]
    pub fn ke3(&self, pw: &[u8], blind: &[u8], client_esk: &[u8], ke1: &[u8], ke2: &[u8], context: &[u8], ids: &Ids, ksf: &dyn Fn(&[u8]) -> Vec<u8>)
        -> Result<(Vec<u8>, Vec<u8>, Vec<u8>, Vec<u8>), &'static str> {
        let noe = self.noe();
        let npk = self.ke.npk();
        let nh = self.nh();
        let evaluated = &ke2[..noe];
        let masking_nonce = &ke2[noe..noe + NN];
        let masked = &ke2[noe + NN..noe + NN + npk + NN + nh];
        let rest = &ke2[noe + NN + npk + NN + nh..];
        let (server_nonce, rest) = rest.split_at(NN);
        let (server_epk, server_mac) = rest.split_at(npk);
        let (rpwd, _) = self.randomized_pwd(pw, blind, evaluated, ksf);
        let masking_key = self.expand(&rpwd, b"MaskingKey", nh);
        let pad = self.expand(&masking_key, &cat(&[masking_nonce, b"CredentialResponsePad"]), npk + NN + nh);
        let clear = xor(&pad, masked);
        let (server_pk, envelope) = clear.split_at(npk);
        let (env_nonce, tag) = envelope.split_at(NN);
        let st = self.store(&rpwd, server_pk, ids, env_nonce);
        if st.envelope[NN..] != *tag {
            return Err("EnvelopeRecoveryError");
        }
        let idc = ids.client.unwrap_or(&st.client_pk);
        let idsv = ids.server.unwrap_or(server_pk);
        let cred_resp = &ke2[..noe + NN + npk + NN + nh];
        let preamble = self.preamble(context, idc, ke1, idsv, cred_resp, server_nonce, server_epk);
        let ikm = cat(&[&self.ke.dh(client_esk, server_epk), &self.ke.dh(client_esk, server_pk), &self.ke.dh(&st.client_sk, server_epk)]);
        let (km2, km3, session_key, _) = self.derive_keys(&ikm, &preamble);
        let th = self.h().hash(&[&preamble]);
        if self.mac(&km2, &th) != server_mac {
            return Err("ServerAuthenticationError");
        }
        let th2 = self.h().hash(&[&preamble, server_mac]);
        Ok((self.mac(&km3, &th2), session_key, st.export_key, server_pk.to_vec()))
    }
}

pub fn specs() -> Vec<Spec> {
    let oprfs: [(&'static str, &'static Oprf); 4] = [("Ris", &OPRF_RIS), ("P256", &OPRF_P256), ("P384", &OPRF_P384), ("P521", &OPRF_P521)];
    let kes: [(&'static str, Ke); 5] = [("Ris", Ke::Prime(&Ristretto)), ("P256", Ke::Prime(&P256)), ("P384", Ke::Prime(&P384)), ("P521", Ke::Prime(&P521)), ("C25", Ke::X25519)];
    let mut v = vec![];
    for (kn, ke) in kes.iter() {
        for (on, o) in oprfs.iter() {
            let name: &'static str = Box::leak(format!("{}{}", on, kn).into_boxed_str());
            v.push(Spec { name, oprf: o, ke: *ke });
        }
    }
    v
}

// ------------------------------------------------------------------------------------------------
// Layout tables (DESIGN.md Appendix A): where each field sits in every message / state encoding.
// ------------------------------------------------------------------------------------------------

#[derive(Clone, Copy, Debug, PartialEq, Eq, Hash, serde::Serialize, serde::Deserialize, PartialOrd, Ord)]
pub enum Kind {
    RegReq,
    RegResp,
    Upload,
    CredReq,
    CredResp,
    Fin,
    File,
    Setup,
    CReg,
    CLogin,
    SLogin,
}
pub const ALL_KINDS: [Kind; 11] = [
    Kind::RegReq,
    Kind::RegResp,
    Kind::Upload,
    Kind::CredReq,
    Kind::CredResp,
    Kind::Fin,
    Kind::File,
    Kind::Setup,
    Kind::CReg,
    Kind::CLogin,
    Kind::SLogin,
];
impl Kind {
    pub fn name(self) -> &'static str {
        match self {
            Kind::RegReq => "RegistrationRequest",
            Kind::RegResp => "RegistrationResponse",
            Kind::Upload => "RegistrationUpload",
            Kind::CredReq => "CredentialRequest",
            Kind::CredResp => "CredentialResponse",
            Kind::Fin => "CredentialFinalization",
            Kind::File => "ServerRegistration",
            Kind::Setup => "ServerSetup",
            Kind::CReg => "ClientRegistration",
            Kind::CLogin => "ClientLogin",
            Kind::SLogin => "ServerLogin",
        }
    }
}

#[derive(Clone, Copy, Debug, PartialEq, Eq)]
pub enum FT {
    OprfElem,
    OprfScalar,
    KePk,
    KeSk,
    Nonce,
    Hash,
    Masked,
}
#[derive(Clone, Debug)]
pub struct Field {
    pub name: &'static str,
    pub ty: FT,
    pub start: usize,
    pub len: usize,
}
impl Field {
    pub fn range(&self) -> std::ops::Range<usize> {
        self.start..self.start + self.len
    }
    pub fn of<'a>(&self, b: &'a [u8]) -> &'a [u8] {
        &b[self.range()]
    }
}

impl Spec {
    pub fn npk(&self) -> usize {
        self.ke.npk()
    }
    pub fn nsk(&self) -> usize {
        self.ke.nsk()
    }
    pub fn flen(&self, ty: FT) -> usize {
        match ty {
            FT::OprfElem => self.noe(),
            FT::OprfScalar => self.nok(),
            FT::KePk => self.npk(),
            FT::KeSk => self.nsk(),
            FT::Nonce => NN,
            FT::Hash => self.nh(),
            FT::Masked => self.npk() + NN + self.nh(),
        }
    }
    pub fn layout(&self, k: Kind) -> Vec<Field> {
        use FT::*;
        let spec: Vec<(&'static str, FT)> = match k {
            Kind::RegReq => vec![("blinded", OprfElem)],
            Kind::RegResp => vec![("evaluated", OprfElem), ("server_pk", KePk)],
            Kind::Upload | Kind::File => vec![("client_pk", KePk), ("masking_key", Hash), ("envelope_nonce", Nonce), ("envelope_tag", Hash)],
            Kind::CredReq => vec![("blinded", OprfElem), ("client_nonce", Nonce), ("client_epk", KePk)],
            Kind::CredResp => vec![("evaluated", OprfElem), ("masking_nonce", Nonce), ("masked_response", Masked), ("server_nonce", Nonce), ("server_epk", KePk), ("server_mac", Hash)],
            Kind::Fin => vec![("client_mac", Hash)],
            Kind::Setup => vec![("oprf_seed", Hash), ("server_sk", KeSk), ("fake_sk", KeSk)],
            Kind::CReg => vec![("blind", OprfScalar), ("blinded", OprfElem)],
            Kind::CLogin => vec![("blind", OprfScalar), ("blinded", OprfElem), ("client_nonce", Nonce), ("client_epk", KePk), ("client_esk", KeSk), ("client_nonce_state", Nonce)],
            Kind::SLogin => vec![("km3", Hash), ("transcript_hash", Hash), ("session_key", Hash)],
        };
        let mut off = 0;
        spec.into_iter()
            .map(|(name, ty)| {
                let len = self.flen(ty);
                let f = Field { name, ty, start: off, len };
                off += len;
                f
            })
            .collect()
    }
    pub fn len_of(&self, k: Kind) -> usize {
        self.layout(k).iter().map(|f| f.len).sum()
    }
    pub fn field(&self, k: Kind, name: &str) -> Field {
        self.layout(k).into_iter().find(|f| f.name == name).unwrap_or_else(|| panic!("no field {name} in {k:?}"))
    }
    /// unmask a credential response with a known masking key: (server_pk, envelope)
    pub fn unmask(&self, masking_key: &[u8], ke2: &[u8]) -> (Vec<u8>, Vec<u8>) {
        let mn = self.field(Kind::CredResp, "masking_nonce").of(ke2).to_vec();
        let masked = self.field(Kind::CredResp, "masked_response").of(ke2).to_vec();
        let pad = hkdf_expand(self.h(), masking_key, &cat(&[&mn, b"CredentialResponsePad"]), masked.len());
        let clear: Vec<u8> = pad.iter().zip(&masked).map(|(a, b)| a ^ b).collect();
        (clear[..self.npk()].to_vec(), clear[self.npk()..].to_vec())
    }
    pub fn masking_key_of(&self, rpwd: &[u8]) -> Vec<u8> {
        hkdf_expand(self.h(), rpwd, b"MaskingKey", self.nh())
    }
    pub fn is_prime_ke(&self) -> bool {
        matches!(self.ke, Ke::Prime(_))
    }
}

pub fn spec_by_name(name: &str) -> &'static Spec {
    use std::sync::OnceLock;
    static SPECS: OnceLock<Vec<Spec>> = OnceLock::new();
    SPECS.get_or_init(specs).iter().find(|s| s.name == name).unwrap_or_else(|| panic!("no spec {name}"))
}

/// The harness-defined key-stretching function (see adapter::ProbeKsf): a keyed byte permutation.
pub fn probe_ksf(id: u32, input: &[u8]) -> Vec<u8> {
    if id == 99 {
        // a maximally lossy stretching function: constant output (every secret must still depend on the OPRF output)
        return vec![0x42u8; input.len()];
    }
    input.iter().enumerate().map(|(i, b)| b.wrapping_add(((id as u8).wrapping_add(1)).wrapping_mul((i as u8).wrapping_mul(2).wrapping_add(1)))).collect()
}
