//! Honest-flow building blocks on top of `Api` (all real API calls; used by most drivers to reach the
//! state their exploration starts from).
use crate::adapter::{Blob, Ob, E};
use crate::alphabet::{desc, odesc, Bytes, OBytes};
use crate::api::Api;
use crate::tape::Tape;
use serde_json::{json, Value};

#[derive(Clone, Debug, PartialEq, Eq, Hash)]
pub struct Params {
    pub pw: Bytes,
    pub cid: Bytes,
    pub idu: OBytes,
    pub ids: OBytes,
    pub ctx: OBytes,
    pub ksf: Option<u32>,
}
impl Params {
    pub fn default_with(pw: &[u8]) -> Params {
        Params { pw: pw.to_vec(), cid: crate::alphabet::CID_DEFAULT.to_vec(), idu: None, ids: None, ctx: None, ksf: None }
    }
    pub fn describe(&self) -> Value {
        json!({"pw": desc(&self.pw), "cid": desc(&self.cid), "idu": odesc(&self.idu), "ids": odesc(&self.ids), "ctx": odesc(&self.ctx), "ksf": self.ksf})
    }
}
pub fn o(x: &OBytes) -> Ob<'_> {
    x.as_deref()
}

#[derive(Clone, Debug)]
pub struct Registration {
    pub req: Bytes,
    pub creg: Bytes,
    pub resp: Bytes,
    pub upload: Bytes,
    pub export: Bytes,
    pub spk_seen: Bytes,
    pub file: Bytes,
    /// tape draws of (reg_start, reg_finish)
    pub draws_start: Vec<Bytes>,
    pub draws_finish: Vec<Bytes>,
}
#[derive(Clone, Debug)]
pub struct StepErr {
    pub step: &'static str,
    pub e: E,
}
pub type FR<T> = Result<T, StepErr>;
fn at<T>(step: &'static str, r: Result<T, E>) -> FR<T> {
    r.map_err(|e| StepErr { step, e })
}

pub fn register(api: &Api, t: &mut Tape, setup: &[u8], pw: &[u8], cid: &[u8], idu: Ob, ids: Ob, ksf: Option<u32>) -> FR<Registration> {
    t.take_log();
    let (req, creg) = at("reg_start", api.reg_start(t, pw))?;
    let draws_start = t.take_draws();
    let resp = at("sreg_start", api.sreg_start(&Blob::n(setup), &Blob::n(&req), cid))?;
    let (upload, export, spk_seen) = at("reg_finish", api.reg_finish(t, &Blob::n(&creg), pw, &Blob::n(&resp), idu, ids, ksf))?;
    let draws_finish = t.take_draws();
    let file = at("sreg_finish", api.sreg_finish(&Blob::n(&upload)))?;
    Ok(Registration { req, creg, resp, upload, export, spk_seen, file, draws_start, draws_finish })
}

#[derive(Clone, Debug)]
pub struct Login {
    pub ke1: Bytes,
    pub clogin: Bytes,
    pub ke2: Bytes,
    pub slogin: Bytes,
    pub ke3: Bytes,
    pub sk_client: Bytes,
    pub export: Bytes,
    pub spk_seen: Bytes,
    pub sk_server: Bytes,
    pub draws_cstart: Vec<Bytes>,
    pub draws_sstart: Vec<Bytes>,
}

#[allow(clippy::too_many_arguments)]
pub fn login(api: &Api, t: &mut Tape, setup: &[u8], file: Option<&[u8]>, pw: &[u8], cid: &[u8], ctx: Ob, idu: Ob, ids: Ob, ksf: Option<u32>) -> FR<Login> {
    t.take_log();
    let (ke1, clogin) = at("login_start", api.login_start(t, pw))?;
    let draws_cstart = t.take_draws();
    let fb = file.map(Blob::n);
    let (ke2, slogin) = at("slogin_start", api.slogin_start(t, &Blob::n(setup), fb.as_ref(), &Blob::n(&ke1), cid, ctx, idu, ids))?;
    let draws_sstart = t.take_draws();
    let (ke3, sk_client, export, spk_seen) = at("login_finish", api.login_finish(&Blob::n(&clogin), pw, &Blob::n(&ke2), ctx, idu, ids, ksf))?;
    let sk_server = at("slogin_finish", api.slogin_finish(&Blob::n(&slogin), &Blob::n(&ke3)))?;
    Ok(Login { ke1, clogin, ke2, slogin, ke3, sk_client, export, spk_seen, sk_server, draws_cstart, draws_sstart })
}

/// setup + registration + login with the same parameters everywhere
pub struct Full {
    pub setup: Bytes,
    pub setup_draws: Vec<Bytes>,
    pub spk: Bytes,
    pub reg: Registration,
    pub login: Login,
}
pub fn full(api: &Api, t: &mut Tape, p: &Params) -> FR<Full> {
    t.take_log();
    let setup = at("setup", api.setup(t))?;
    let setup_draws = t.take_draws();
    let spk = at("setup_pk", api.setup_pk(&Blob::n(&setup)))?;
    let reg = register(api, t, &setup, &p.pw, &p.cid, o(&p.idu), o(&p.ids), p.ksf)?;
    let login = login(api, t, &setup, Some(&reg.file), &p.pw, &p.cid, o(&p.ctx), o(&p.idu), o(&p.ids), p.ksf)?;
    Ok(Full { setup, setup_draws, spk, reg, login })
}
