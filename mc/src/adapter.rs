//! Byte-level driver of the real opaque-ke API (DESIGN.md section 2.1).  Every method calls exactly one
//! public API operation of the library, compiled as a user links it (production cfg, no cfg(test)).
#![allow(clippy::type_complexity, clippy::too_many_arguments)]
use crate::refmodel::Kind;
use crate::tape::Tape;
use generic_array::{ArrayLength, GenericArray};
use opaque_ke::errors::{InternalError, ProtocolError};
use opaque_ke::key_exchange::group::KeGroup;
use opaque_ke::key_exchange::tripledh::TripleDh;
use opaque_ke::keypair::{KeyPair, PrivateKey, PublicKey, SecretKey};
use opaque_ke::ksf::Ksf;
use opaque_ke::*;
use std::cell::RefCell;
use sha2::digest as digest_shim;

// ------------------------------------------------------------------------------------------------
// errors, matched on the enum variant (never on Debug text)
// ------------------------------------------------------------------------------------------------
#[derive(Clone, Debug, PartialEq, Eq, Hash, serde::Serialize, serde::Deserialize, PartialOrd, Ord)]
pub enum E {
    InvalidLogin,
    Serialization,
    Reflected,
    IdentityElement,
    /// ProtocolError::LibraryError(variant name)
    Lib(String),
    /// InternalError::Custom carrying the harness' remote-key error
    Custom(u32),
    /// error of the serde codec (bincode / JSON) while decoding
    Serde,
    Panic(String),
    /// the caller-supplied random generator failed (fault injection) and the failure surfaced as its own panic
    RngFault,
    Harness(String),
}
pub type R<T> = Result<T, E>;

pub trait CustomCode {
    fn code(&self) -> u32;
}
impl CustomCode for core::convert::Infallible {
    fn code(&self) -> u32 {
        unreachable!()
    }
}
pub fn ie<T: CustomCode>(e: InternalError<T>) -> E {
    match e {
        InternalError::Custom(c) => E::Custom(c.code()),
        InternalError::InvalidByteSequence => E::Lib("InvalidByteSequence".into()),
        InternalError::SizeError { .. } => E::Lib("SizeError".into()),
        InternalError::PointError => E::Lib("PointError".into()),
        InternalError::HashToScalar => E::Lib("HashToScalar".into()),
        InternalError::HkdfError => E::Lib("HkdfError".into()),
        InternalError::HmacError => E::Lib("HmacError".into()),
        InternalError::KsfError => E::Lib("KsfError".into()),
        InternalError::SealOpenHmacError => E::Lib("SealOpenHmacError".into()),
        InternalError::IncompatibleEnvelopeModeError => E::Lib("IncompatibleEnvelopeModeError".into()),
        InternalError::OprfError(_) => E::Lib("OprfError".into()),
        InternalError::OprfInternalError(_) => E::Lib("OprfInternalError".into()),
        // the error enums are not #[non_exhaustive]: a tree under test may have grown a variant
        #[allow(unreachable_patterns)]
        _ => E::Lib("OtherInternalError".into()),
    }
}
pub fn pe<T: CustomCode>(e: ProtocolError<T>) -> E {
    match e {
        ProtocolError::LibraryError(i) => ie(i),
        ProtocolError::InvalidLoginError => E::InvalidLogin,
        ProtocolError::SerializationError => E::Serialization,
        ProtocolError::ReflectedValueError => E::Reflected,
        ProtocolError::IdentityGroupElementError => E::IdentityElement,
        #[allow(unreachable_patterns)]
        _ => E::Lib("OtherProtocolError".into()),
    }
}

// ------------------------------------------------------------------------------------------------
// blobs: an object as it is stored / transmitted, in one of three codecs
// ------------------------------------------------------------------------------------------------
#[derive(Clone, Copy, Debug, PartialEq, Eq, Hash, serde::Serialize, serde::Deserialize, PartialOrd, Ord)]
pub enum Codec {
    Native,
    Bincode,
    Json,
    /// not a codec: an in-memory copy through the type's Clone impl (only meaningful for typed objects, i.e. in
    /// flow_in_memory; for byte blobs it is the identity)
    Clone,
}
#[derive(Clone, Debug, PartialEq, Eq, Hash, serde::Serialize, serde::Deserialize)]
pub struct Blob {
    pub codec: Codec,
    #[serde(with = "hexser")]
    pub bytes: Vec<u8>,
}
impl Blob {
    pub fn n(b: &[u8]) -> Blob {
        Blob { codec: Codec::Native, bytes: b.to_vec() }
    }
    pub fn new(codec: Codec, b: Vec<u8>) -> Blob {
        Blob { codec, bytes: b }
    }
}
pub mod hexser {
    use serde::{Deserialize, Deserializer, Serializer};
    pub fn serialize<S: Serializer>(b: &Vec<u8>, s: S) -> Result<S::Ok, S::Error> {
        s.serialize_str(&hex::encode(b))
    }
    pub fn deserialize<'de, D: Deserializer<'de>>(d: D) -> Result<Vec<u8>, D::Error> {
        let s = String::deserialize(d)?;
        hex::decode(s).map_err(serde::de::Error::custom)
    }
}

fn load<T: serde::de::DeserializeOwned, X: CustomCode>(b: &Blob, native: impl Fn(&[u8]) -> Result<T, ProtocolError<X>>) -> R<T> {
    match b.codec {
        Codec::Native | Codec::Clone => native(&b.bytes).map_err(pe),
        Codec::Bincode => bincode::deserialize(&b.bytes).map_err(|_| E::Serde),
        Codec::Json => serde_json::from_slice(&b.bytes).map_err(|_| E::Serde),
    }
}
fn save<T: serde::Serialize>(x: &T, to: Codec, native: impl Fn(&T) -> Vec<u8>) -> R<Blob> {
    Ok(match to {
        Codec::Native | Codec::Clone => Blob::new(Codec::Native, native(x)),
        Codec::Bincode => Blob::new(to, bincode::serialize(x).map_err(|_| E::Harness("bincode ser".into()))?),
        Codec::Json => Blob::new(to, serde_json::to_vec(x).map_err(|_| E::Harness("json ser".into()))?),
    })
}

// ------------------------------------------------------------------------------------------------
// harness-defined key-stretching functions
// ------------------------------------------------------------------------------------------------
thread_local! {
    static KSF_LOG: RefCell<Vec<(u32, Vec<u8>)>> = const { RefCell::new(vec![]) };
    static KSF_FAIL_AT: RefCell<Option<usize>> = const { RefCell::new(None) };
    static SK_LOG: RefCell<Vec<&'static str>> = const { RefCell::new(vec![]) };
    static SK_FAIL_AT: RefCell<Option<usize>> = const { RefCell::new(None) };
    static SK_COUNT: RefCell<usize> = const { RefCell::new(0) };
}
pub fn ksf_take_log() -> Vec<(u32, Vec<u8>)> {
    KSF_LOG.with(|l| std::mem::take(&mut *l.borrow_mut()))
}
/// make the n-th (1-based) call of the probe KSF from now on fail; None disarms
pub fn ksf_fail_at(n: Option<usize>) {
    KSF_LOG.with(|l| l.borrow_mut().clear());
    KSF_FAIL_AT.with(|f| *f.borrow_mut() = n);
}

pub trait KsfSel: Ksf {
    const FAMILY: &'static str;
    fn make(id: u32) -> Self;
}
impl KsfSel for opaque_ke::ksf::Identity {
    const FAMILY: &'static str = "identity";
    fn make(_: u32) -> Self {
        opaque_ke::ksf::Identity
    }
}
/// Logs every call (instance id, input); output = keyed byte permutation of the input (refmodel::probe_ksf)
#[derive(Default)]
pub struct ProbeKsf(pub u32);
impl Ksf for ProbeKsf {
    fn hash<L: ArrayLength<u8>>(&self, input: GenericArray<u8, L>) -> Result<GenericArray<u8, L>, InternalError> {
        let n = KSF_LOG.with(|l| {
            l.borrow_mut().push((self.0, input.to_vec()));
            l.borrow().len()
        });
        if KSF_FAIL_AT.with(|f| *f.borrow() == Some(n)) {
            return Err(InternalError::KsfError);
        }
        Ok(GenericArray::clone_from_slice(&crate::refmodel::probe_ksf(self.0, &input)))
    }
}
impl KsfSel for ProbeKsf {
    const FAMILY: &'static str = "probe";
    fn make(id: u32) -> Self {
        ProbeKsf(id)
    }
}
/// A ZERO-SIZED custom stretching function (what a user writes as `struct MyKsf;` with fixed parameters): logs like
/// ProbeKsf (instance id 0), output = refmodel::probe_ksf(7, input)
#[derive(Default)]
pub struct UnitKsf;
impl Ksf for UnitKsf {
    fn hash<L: ArrayLength<u8>>(&self, input: GenericArray<u8, L>) -> Result<GenericArray<u8, L>, InternalError> {
        let n = KSF_LOG.with(|l| {
            l.borrow_mut().push((0, input.to_vec()));
            l.borrow().len()
        });
        if KSF_FAIL_AT.with(|f| *f.borrow() == Some(n)) {
            return Err(InternalError::KsfError);
        }
        Ok(GenericArray::clone_from_slice(&crate::refmodel::probe_ksf(7, &input)))
    }
}
impl KsfSel for UnitKsf {
    const FAMILY: &'static str = "unit";
    fn make(_id: u32) -> Self {
        UnitKsf
    }
}
pub fn argon2_params(id: u32) -> argon2::Params {
    match id {
        0 => argon2::Params::default(),
        1 => argon2::Params::new(8, 1, 1, None).unwrap(),
        2 => argon2::Params::new(16, 2, 1, None).unwrap(),
        _ => argon2::Params::new(8, 2, 1, None).unwrap(),
    }
}
impl KsfSel for argon2::Argon2<'static> {
    const FAMILY: &'static str = "argon2";
    /// 0 = the default instance; 1 = Argon2id v0x13 with small cost; 2 = another cost; 3, 4, 5 = the cost of 1 but
    /// Argon2i / version 0x10 / keyed with a secret ("pepper"): instances that differ in more than the cost
    fn make(id: u32) -> Self {
        match id {
            0 => argon2::Argon2::default(),
            3 => argon2::Argon2::new(argon2::Algorithm::Argon2i, argon2::Version::V0x13, argon2_params(1)),
            4 => argon2::Argon2::new(argon2::Algorithm::Argon2id, argon2::Version::V0x10, argon2_params(1)),
            5 => argon2::Argon2::new_with_secret(b"pepper-pepper", argon2::Algorithm::Argon2id, argon2::Version::V0x13, argon2_params(1)).expect("argon2 secret"),
            _ => argon2::Argon2::new(argon2::Algorithm::Argon2id, argon2::Version::V0x13, argon2_params(id)),
        }
    }
}

// ------------------------------------------------------------------------------------------------
// harness-defined external key
// ------------------------------------------------------------------------------------------------
#[derive(Clone, Debug, PartialEq, Eq)]
pub struct RemoteErr(pub u32);
impl CustomCode for RemoteErr {
    fn code(&self) -> u32 {
        self.0
    }
}
/// A handle-style external key: the private key lives "elsewhere" (here: in `real`); what the library can serialize
/// and later deserialize is only an opaque HANDLE of the same length.  The handle is itself a valid private-key
/// encoding of the group (a decoy), so that code which wrongly interprets the serialized form as the key itself does
/// not fail loudly but computes with the wrong key - and is caught by the differential oracle.
pub struct Remote<KG: KeGroup, L: ArrayLength<u8> = <KG as KeGroup>::SkLen> {
    real: PrivateKey<KG>,
    /// what the key serializes to: L = SkLen (a decoy key or opaque bytes, see HANDLE_STYLE), L = U0 (nothing at all:
    /// the form the crate's documentation shows for HSM-held keys), L = SkLen + 8 (a tagged, longer handle)
    handle: GenericArray<u8, L>,
}
thread_local! {
    /// handle bytes -> real private key bytes (the "key store")
    static HANDLES: RefCell<std::collections::HashMap<Vec<u8>, Vec<u8>>> = RefCell::new(std::collections::HashMap::new());
}
impl<KG: KeGroup, L: ArrayLength<u8>> Clone for Remote<KG, L> {
    fn clone(&self) -> Self {
        SK_LOG.with(|l| l.borrow_mut().push("clone"));
        Remote { real: self.real.clone(), handle: self.handle.clone() }
    }
}
impl<KG: KeGroup, L: ArrayLength<u8>> Remote<KG, L> {
    /// fallible interface call: counted, and fails if it is the armed n-th one
    fn tick(name: &'static str) -> Result<(), InternalError<RemoteErr>> {
        SK_LOG.with(|l| l.borrow_mut().push(name));
        let n = SK_COUNT.with(|c| {
            *c.borrow_mut() += 1;
            *c.borrow()
        });
        if SK_FAIL_AT.with(|f| *f.borrow() == Some(n)) {
            return Err(InternalError::Custom(RemoteErr(1000 + n as u32)));
        }
        Ok(())
    }
    /// put a private key into the key store; returns the external key object
    fn store<CS: voprf::CipherSuite>(sk: &[u8]) -> Result<Self, E>
    where
        <CS::Hash as digest_shim::OutputSizeUser>::OutputSize: generic_array::typenum::IsLess<generic_array::typenum::U256> + generic_array::typenum::IsLessOrEqual<<CS::Hash as digest_shim::core_api::BlockSizeUser>::BlockSize>,
    {
        let real = PrivateKey::<KG>::deserialize(sk).map_err(ie)?;
        // decoy handle: a valid private key of the group derived from the real key bytes
        let decoy = KG::derive_auth_keypair::<CS>(GenericArray::clone_from_slice(sk)).map_err(ie)?;
        let mut base = KG::serialize_sk(decoy);
        if HANDLE_STYLE.with(|h| *h.borrow()) == 1 {
            // opaque: 0xff in the first and last byte is no valid scalar of any supported group (>= the order in either
            // byte order; not clamped for Curve25519); the middle still identifies the key
            let n = base.len();
            base[0] = 0xff;
            base[n - 1] = 0xff;
        }
        // fit to the handle length: empty (the key store then holds ONE current key under the empty handle), the base
        // handle itself, or the base handle behind a tag of 0xa5 bytes
        let mut handle = GenericArray::<u8, L>::default();
        let (hl, bl) = (handle.len(), base.len());
        if hl >= bl {
            for b in handle[..hl - bl].iter_mut() {
                *b = 0xa5;
            }
            handle[hl - bl..].copy_from_slice(&base);
        } else {
            handle.copy_from_slice(&base[..hl]);
        }
        HANDLES.with(|h| h.borrow_mut().insert(handle.to_vec(), sk.to_vec()));
        Ok(Remote { real, handle })
    }
}
impl<KG: KeGroup, L: ArrayLength<u8>> SecretKey<KG> for Remote<KG, L> {
    type Error = RemoteErr;
    type Len = L;
    fn diffie_hellman(&self, pk: PublicKey<KG>) -> Result<GenericArray<u8, KG::PkLen>, InternalError<RemoteErr>> {
        Self::tick("diffie_hellman")?;
        self.real.diffie_hellman(pk).map_err(InternalError::into_custom)
    }
    fn public_key(&self) -> Result<PublicKey<KG>, InternalError<RemoteErr>> {
        Self::tick("public_key")?;
        self.real.public_key().map_err(InternalError::into_custom)
    }
    fn serialize(&self) -> GenericArray<u8, Self::Len> {
        SK_LOG.with(|l| l.borrow_mut().push("serialize"));
        self.handle.clone()
    }
    fn deserialize(input: &[u8]) -> Result<Self, InternalError<RemoteErr>> {
        Self::tick("deserialize")?;
        let real = HANDLES.with(|h| h.borrow().get(input).cloned()).ok_or(InternalError::Custom(RemoteErr(404)))?;
        Ok(Remote { real: PrivateKey::deserialize(&real).map_err(InternalError::into_custom)?, handle: GenericArray::clone_from_slice(input) })
    }
}
thread_local! {
    /// what the external key serializes to: 0 = a decoy (a valid private key of the group, see Remote), 1 = an opaque
    /// handle that is NOT a private-key encoding of any group (first and last byte 0xff)
    static HANDLE_STYLE: RefCell<u8> = const { RefCell::new(0) };
}
pub fn remote_handle_style(style: u8) {
    HANDLE_STYLE.with(|h| *h.borrow_mut() = style);
}
fn sk_arm(n: Option<usize>) {
    SK_LOG.with(|l| l.borrow_mut().clear());
    SK_COUNT.with(|c| *c.borrow_mut() = 0);
    SK_FAIL_AT.with(|f| *f.borrow_mut() = n);
}
fn sk_disarm() -> Vec<String> {
    SK_FAIL_AT.with(|f| *f.borrow_mut() = None);
    SK_LOG.with(|l| std::mem::take(&mut *l.borrow_mut())).into_iter().map(|s| s.to_string()).collect()
}

// ------------------------------------------------------------------------------------------------
// the object-safe suite interface
// ------------------------------------------------------------------------------------------------
pub type Ob<'a> = Option<&'a [u8]>;

pub trait Suite: Sync {
    fn name(&self) -> &'static str;
    fn family(&self) -> &'static str;
    fn setup(&self, t: &mut Tape) -> R<Vec<u8>>;
    fn setup_with_key(&self, t: &mut Tape, sk: &[u8]) -> R<Vec<u8>>;
    fn setup_pk(&self, setup: &Blob) -> R<Vec<u8>>;
    /// ServerSetup::keypair().private() in its native encoding
    fn setup_sk(&self, setup: &Blob) -> R<Vec<u8>>;
    fn reg_start(&self, t: &mut Tape, pw: &[u8]) -> R<(Vec<u8>, Vec<u8>)>;
    fn sreg_start(&self, setup: &Blob, req: &Blob, cid: &[u8]) -> R<Vec<u8>>;
    fn reg_finish(&self, t: &mut Tape, st: &Blob, pw: &[u8], resp: &Blob, idu: Ob, ids: Ob, ksf: Option<u32>) -> R<(Vec<u8>, Vec<u8>, Vec<u8>)>;
    fn sreg_finish(&self, upload: &Blob) -> R<Vec<u8>>;
    fn login_start(&self, t: &mut Tape, pw: &[u8]) -> R<(Vec<u8>, Vec<u8>)>;
    fn slogin_start(&self, t: &mut Tape, setup: &Blob, file: Option<&Blob>, req: &Blob, cid: &[u8], ctx: Ob, idu: Ob, ids: Ob) -> R<(Vec<u8>, Vec<u8>)>;
    fn login_finish(&self, st: &Blob, pw: &[u8], resp: &Blob, ctx: Ob, idu: Ob, ids: Ob, ksf: Option<u32>) -> R<(Vec<u8>, Vec<u8>, Vec<u8>, Vec<u8>)>;
    fn slogin_finish(&self, st: &Blob, fin: &Blob) -> R<Vec<u8>>;
    /// decode through the blob's codec, encode through `to`
    fn recode(&self, kind: Kind, b: &Blob, to: Codec) -> R<Blob>;
    /// decode both and compare the typed objects with the library's own `==` and `!=` (true if either says "same")
    fn same(&self, kind: Kind, a: &Blob, b: &Blob) -> R<bool>;
    /// Execute `ops` one after the other on ONE ServerSetup object (deserialized once) and on password-file objects
    /// that stay in memory; returns each operation's outputs
    fn server_session(&self, setup: &[u8], files: &[Vec<u8>], ops: &[SrvOp]) -> R<Vec<R<Vec<Vec<u8>>>>>;
    /// The whole honest flow with every party's state kept IN MEMORY as typed objects (a truly uninterrupted run),
    /// except that at persistence point i the object is saved and reloaded through the codec chain `plan[i]`
    /// (empty = not reloaded).  Points: 0 setup before registration start, 1 client registration state, 2 password
    /// file, 3 setup before login start, 4 client login state, 5 server login state.  Messages travel as native bytes.
    fn flow_in_memory(&self, t: &mut Tape, pw: &[u8], cid: &[u8], ctx: Ob, idu: Ob, ids: Ob, plan: &[Vec<Codec>; 6]) -> Result<FlowOut, (usize, E)>;
    // key-exchange group level (C19)
    fn ke_keypair_pk(&self, sk: &[u8]) -> R<Vec<u8>>;
    fn ke_public_key(&self, sk: &[u8]) -> R<Vec<u8>>;
    fn ke_dh(&self, sk: &[u8], pk: &[u8]) -> R<Vec<u8>>;
    fn ke_sk_recode(&self, sk: &[u8]) -> R<Vec<u8>>;
    fn ke_pk_recode(&self, pk: &[u8]) -> R<Vec<u8>>;
    fn ke_derive(&self, seed: &[u8]) -> R<Vec<u8>>;
    fn ke_random_sk(&self, t: &mut Tape) -> R<Vec<u8>>;
    /// serde forms of the wrapper key types
    fn ke_sk_serde(&self, sk: &Blob) -> R<Vec<u8>>;
    fn ke_pk_serde(&self, pk: &Blob) -> R<Vec<u8>>;
    /// KeGroup::public_key / diffie_hellman on RAW private-key bytes (Curve25519 only; empty result = not applicable)
    fn ke_raw_pk(&self, sk: &[u8]) -> R<Vec<u8>>;
    fn ke_raw_dh(&self, sk: &[u8], pk: &[u8]) -> R<Vec<u8>>;
    /// the serde form the implementation itself produces for a key wrapper (native bytes in, blob in `codec` out)
    fn ke_sk_encode(&self, sk: &[u8], codec: Codec) -> R<Blob>;
    fn ke_pk_encode(&self, pk: &[u8], codec: Codec) -> R<Blob>;
}

/// operations with the server's static key behind the external-key interface (C18)
pub trait RemoteSuite: Sync {
    /// put the private key into the harness key store; returns the opaque handle the external key serializes to
    fn r_handle(&self, sk: &[u8]) -> R<Vec<u8>>;
    fn r_keypair(&self, sk: &[u8], fail_at: Option<usize>) -> (R<Vec<u8>>, Vec<String>);
    fn r_setup_with_key(&self, t: &mut Tape, sk: &[u8], fail_at: Option<usize>) -> (R<Vec<u8>>, Vec<String>);
    fn r_setup_recode(&self, setup: &[u8], fail_at: Option<usize>) -> (R<Vec<u8>>, Vec<String>);
    fn r_sreg_start(&self, setup: &[u8], req: &Blob, cid: &[u8], fail_at: Option<usize>) -> (R<Vec<u8>>, Vec<String>);
    fn r_slogin_start(&self, t: &mut Tape, setup: &[u8], file: Option<&Blob>, req: &Blob, cid: &[u8], ctx: Ob, idu: Ob, ids: Ob, fail_at: Option<usize>) -> (R<(Vec<u8>, Vec<u8>)>, Vec<String>);
}

/// one server-side operation executed on a LONG-LIVED in-memory ServerSetup (and password-file objects that are kept
/// in memory and cloned per login), as a real server process does
#[derive(Clone, Debug, PartialEq, Eq, Hash, serde::Serialize, serde::Deserialize)]
pub enum SrvOp {
    Reg {
        #[serde(with = "hexser")]
        req: Vec<u8>,
        #[serde(with = "hexser")]
        cid: Vec<u8>,
    },
    Login {
        /// index into the list of in-memory password files, or None
        file: Option<usize>,
        #[serde(with = "hexser")]
        ke1: Vec<u8>,
        #[serde(with = "hexser")]
        cid: Vec<u8>,
        ctx: Option<String>,
        tape: crate::tape::TapeSpec,
    },
}

/// everything observable in one honest flow
#[derive(Clone, Debug, Default, PartialEq, Eq, Hash)]
pub struct FlowOut {
    pub setup: Vec<u8>,
    pub req: Vec<u8>,
    pub resp: Vec<u8>,
    pub upload: Vec<u8>,
    pub export_reg: Vec<u8>,
    pub spk_reg: Vec<u8>,
    pub file: Vec<u8>,
    pub ke1: Vec<u8>,
    pub ke2: Vec<u8>,
    pub ke3: Vec<u8>,
    pub sk_client: Vec<u8>,
    pub export_login: Vec<u8>,
    pub spk_login: Vec<u8>,
    pub sk_server: Vec<u8>,
    /// a login attempt without a password file served by the (possibly reloaded) setup of point 3
    pub fake_ke2: Vec<u8>,
    pub fake_state: Vec<u8>,
}

/// save + reload a typed object through a chain of codecs (Native = the type's own serialize/deserialize)
fn reload_obj<T: serde::Serialize + serde::de::DeserializeOwned + Clone, X: CustomCode>(x: T, chain: &[Codec], ser: impl Fn(&T) -> Vec<u8>, de: impl Fn(&[u8]) -> Result<T, ProtocolError<X>>) -> R<T> {
    let mut x = x;
    for c in chain {
        x = match c {
            Codec::Native => de(&ser(&x)).map_err(pe)?,
            Codec::Clone => x.clone(),
            Codec::Bincode => bincode::deserialize(&bincode::serialize(&x).map_err(|_| E::Harness("bincode ser".into()))?).map_err(|_| E::Serde)?,
            Codec::Json => serde_json::from_slice(&serde_json::to_vec(&x).map_err(|_| E::Harness("json ser".into()))?).map_err(|_| E::Serde)?,
        };
    }
    Ok(x)
}

macro_rules! recode_arm {
    ($ty:ty, $b:expr, $to:expr) => {{
        let x: $ty = load($b, |x| <$ty>::deserialize(x))?;
        save(&x, $to, |x| x.serialize().to_vec())
    }};
}

macro_rules! same_arm {
    ($ty:ty, $a:expr, $b:expr) => {{
        let x: $ty = load($a, |x| <$ty>::deserialize(x))?;
        let y: $ty = load($b, |x| <$ty>::deserialize(x))?;
        // `==` and `!=` must be each other's negation; an inconsistent pair is reported as "equal" (the worse reading)
        #[allow(clippy::nonminimal_bool)]
        let (e, n) = (x == y, x != y);
        Ok(e || !n)
    }};
}

macro_rules! suite {
    ($name:ident, $oprf:ty, $ke:ty, $ksf:ty) => {
        pub struct $name;
        impl CipherSuite for $name {
            type OprfCs = $oprf;
            type KeGroup = $ke;
            type KeyExchange = TripleDh;
            type Ksf = $ksf;
        }
        impl Suite for $name {
            fn name(&self) -> &'static str {
                stringify!($name)
            }
            fn family(&self) -> &'static str {
                <$ksf as KsfSel>::FAMILY
            }
            fn setup(&self, t: &mut Tape) -> R<Vec<u8>> {
                Ok(ServerSetup::<$name>::new(t).serialize().to_vec())
            }
            fn setup_with_key(&self, t: &mut Tape, sk: &[u8]) -> R<Vec<u8>> {
                let kp = KeyPair::<$ke>::from_private_key_slice(sk).map_err(pe)?;
                Ok(ServerSetup::<$name>::new_with_key(t, kp).serialize().to_vec())
            }
            fn setup_pk(&self, setup: &Blob) -> R<Vec<u8>> {
                let s: ServerSetup<$name> = load(setup, |x| ServerSetup::<$name>::deserialize(x))?;
                Ok(s.keypair().public().serialize().to_vec())
            }
            fn setup_sk(&self, setup: &Blob) -> R<Vec<u8>> {
                let s: ServerSetup<$name> = load(setup, |x| ServerSetup::<$name>::deserialize(x))?;
                Ok(s.keypair().private().serialize().to_vec())
            }
            fn reg_start(&self, t: &mut Tape, pw: &[u8]) -> R<(Vec<u8>, Vec<u8>)> {
                let r = ClientRegistration::<$name>::start(t, pw).map_err(pe)?;
                Ok((r.message.serialize().to_vec(), r.state.serialize().to_vec()))
            }
            fn sreg_start(&self, setup: &Blob, req: &Blob, cid: &[u8]) -> R<Vec<u8>> {
                let s: ServerSetup<$name> = load(setup, |x| ServerSetup::<$name>::deserialize(x))?;
                let m: RegistrationRequest<$name> = load(req, |x| RegistrationRequest::<$name>::deserialize(x))?;
                Ok(ServerRegistration::<$name>::start(&s, m, cid).map_err(pe)?.message.serialize().to_vec())
            }
            fn reg_finish(&self, t: &mut Tape, st: &Blob, pw: &[u8], resp: &Blob, idu: Ob, ids: Ob, ksf: Option<u32>) -> R<(Vec<u8>, Vec<u8>, Vec<u8>)> {
                let st: ClientRegistration<$name> = load(st, |x| ClientRegistration::<$name>::deserialize(x))?;
                let m: RegistrationResponse<$name> = load(resp, |x| RegistrationResponse::<$name>::deserialize(x))?;
                let k = ksf.map(<$ksf as KsfSel>::make);
                let r = st.finish(t, pw, m, ClientRegistrationFinishParameters::new(Identifiers { client: idu, server: ids }, k.as_ref())).map_err(pe)?;
                Ok((r.message.serialize().to_vec(), r.export_key.to_vec(), r.server_s_pk.serialize().to_vec()))
            }
            fn sreg_finish(&self, upload: &Blob) -> R<Vec<u8>> {
                let m: RegistrationUpload<$name> = load(upload, |x| RegistrationUpload::<$name>::deserialize(x))?;
                Ok(ServerRegistration::<$name>::finish(m).serialize().to_vec())
            }
            fn login_start(&self, t: &mut Tape, pw: &[u8]) -> R<(Vec<u8>, Vec<u8>)> {
                let r = ClientLogin::<$name>::start(t, pw).map_err(pe)?;
                Ok((r.message.serialize().to_vec(), r.state.serialize().to_vec()))
            }
            fn slogin_start(&self, t: &mut Tape, setup: &Blob, file: Option<&Blob>, req: &Blob, cid: &[u8], ctx: Ob, idu: Ob, ids: Ob) -> R<(Vec<u8>, Vec<u8>)> {
                let s: ServerSetup<$name> = load(setup, |x| ServerSetup::<$name>::deserialize(x))?;
                let f: Option<ServerRegistration<$name>> = match file {
                    Some(f) => Some(load(f, |x| ServerRegistration::<$name>::deserialize(x))?),
                    None => None,
                };
                let m: CredentialRequest<$name> = load(req, |x| CredentialRequest::<$name>::deserialize(x))?;
                let r = ServerLogin::start(t, &s, f, m, cid, ServerLoginStartParameters { context: ctx, identifiers: Identifiers { client: idu, server: ids } }).map_err(pe)?;
                Ok((r.message.serialize().to_vec(), r.state.serialize().to_vec()))
            }
            fn login_finish(&self, st: &Blob, pw: &[u8], resp: &Blob, ctx: Ob, idu: Ob, ids: Ob, ksf: Option<u32>) -> R<(Vec<u8>, Vec<u8>, Vec<u8>, Vec<u8>)> {
                let st: ClientLogin<$name> = load(st, |x| ClientLogin::<$name>::deserialize(x))?;
                let m: CredentialResponse<$name> = load(resp, |x| CredentialResponse::<$name>::deserialize(x))?;
                let k = ksf.map(<$ksf as KsfSel>::make);
                let r = st.finish(pw, m, ClientLoginFinishParameters::new(ctx, Identifiers { client: idu, server: ids }, k.as_ref())).map_err(pe)?;
                Ok((r.message.serialize().to_vec(), r.session_key.to_vec(), r.export_key.to_vec(), r.server_s_pk.serialize().to_vec()))
            }
            fn slogin_finish(&self, st: &Blob, fin: &Blob) -> R<Vec<u8>> {
                let st: ServerLogin<$name> = load(st, |x| ServerLogin::<$name>::deserialize(x))?;
                let m: CredentialFinalization<$name> = load(fin, |x| CredentialFinalization::<$name>::deserialize(x))?;
                Ok(st.finish(m).map_err(pe)?.session_key.to_vec())
            }
            fn recode(&self, kind: Kind, b: &Blob, to: Codec) -> R<Blob> {
                match kind {
                    Kind::RegReq => recode_arm!(RegistrationRequest<$name>, b, to),
                    Kind::RegResp => recode_arm!(RegistrationResponse<$name>, b, to),
                    Kind::Upload => recode_arm!(RegistrationUpload<$name>, b, to),
                    Kind::CredReq => recode_arm!(CredentialRequest<$name>, b, to),
                    Kind::CredResp => recode_arm!(CredentialResponse<$name>, b, to),
                    Kind::Fin => recode_arm!(CredentialFinalization<$name>, b, to),
                    Kind::File => recode_arm!(ServerRegistration<$name>, b, to),
                    Kind::Setup => recode_arm!(ServerSetup<$name>, b, to),
                    Kind::CReg => recode_arm!(ClientRegistration<$name>, b, to),
                    Kind::CLogin => recode_arm!(ClientLogin<$name>, b, to),
                    Kind::SLogin => recode_arm!(ServerLogin<$name>, b, to),
                }
            }
            fn same(&self, kind: Kind, a: &Blob, b: &Blob) -> R<bool> {
                match kind {
                    Kind::RegReq => same_arm!(RegistrationRequest<$name>, a, b),
                    Kind::RegResp => same_arm!(RegistrationResponse<$name>, a, b),
                    Kind::Upload => same_arm!(RegistrationUpload<$name>, a, b),
                    Kind::CredReq => same_arm!(CredentialRequest<$name>, a, b),
                    Kind::CredResp => same_arm!(CredentialResponse<$name>, a, b),
                    Kind::Fin => same_arm!(CredentialFinalization<$name>, a, b),
                    Kind::File => same_arm!(ServerRegistration<$name>, a, b),
                    Kind::Setup => same_arm!(ServerSetup<$name>, a, b),
                    Kind::CReg => same_arm!(ClientRegistration<$name>, a, b),
                    Kind::CLogin => same_arm!(ClientLogin<$name>, a, b),
                    Kind::SLogin => same_arm!(ServerLogin<$name>, a, b),
                }
            }
            fn server_session(&self, setup: &[u8], files: &[Vec<u8>], ops: &[SrvOp]) -> R<Vec<R<Vec<Vec<u8>>>>> {
                let setup = ServerSetup::<$name>::deserialize(setup).map_err(pe)?;
                let mut fobjs = vec![];
                for f in files {
                    fobjs.push(ServerRegistration::<$name>::deserialize(f).map_err(pe)?);
                }
                let mut out = vec![];
                for op in ops {
                    out.push(match op {
                        SrvOp::Reg { req, cid } => (|| {
                            let m = RegistrationRequest::<$name>::deserialize(req).map_err(pe)?;
                            Ok(vec![ServerRegistration::<$name>::start(&setup, m, cid).map_err(pe)?.message.serialize().to_vec()])
                        })(),
                        SrvOp::Login { file, ke1, cid, ctx, tape } => (|| {
                            let m = CredentialRequest::<$name>::deserialize(ke1).map_err(pe)?;
                            let mut t = Tape::from_spec(tape);
                            let c = ctx.as_ref().map(|h| hex::decode(h).unwrap_or_default());
                            let r = ServerLogin::start(&mut t, &setup, file.map(|i| fobjs[i].clone()), m, cid, ServerLoginStartParameters { context: c.as_deref(), identifiers: Identifiers { client: None, server: None } }).map_err(pe)?;
                            Ok(vec![r.message.serialize().to_vec(), r.state.serialize().to_vec()])
                        })(),
                    });
                }
                Ok(out)
            }
            fn flow_in_memory(&self, t: &mut Tape, pw: &[u8], cid: &[u8], ctx: Ob, idu: Ob, ids: Ob, plan: &[Vec<Codec>; 6]) -> Result<FlowOut, (usize, E)> {
                let mut o = FlowOut::default();
                let at = |step: usize| move |e: E| (step, e);
                let setup = ServerSetup::<$name>::new(t);
                o.setup = setup.serialize().to_vec();
                let rs = ClientRegistration::<$name>::start(t, pw).map_err(pe).map_err(at(1))?;
                o.req = rs.message.serialize().to_vec();
                let setup1 = reload_obj(setup.clone(), &plan[0], |x| x.serialize().to_vec(), |b| ServerSetup::<$name>::deserialize(b)).map_err(at(2))?;
                let m = RegistrationRequest::<$name>::deserialize(&o.req).map_err(pe).map_err(at(2))?;
                let ss = ServerRegistration::<$name>::start(&setup1, m, cid).map_err(pe).map_err(at(2))?;
                o.resp = ss.message.serialize().to_vec();
                let creg = reload_obj(rs.state, &plan[1], |x| x.serialize().to_vec(), |b| ClientRegistration::<$name>::deserialize(b)).map_err(at(3))?;
                let m = RegistrationResponse::<$name>::deserialize(&o.resp).map_err(pe).map_err(at(3))?;
                let rf = creg.finish(t, pw, m, ClientRegistrationFinishParameters::new(Identifiers { client: idu, server: ids }, None)).map_err(pe).map_err(at(3))?;
                o.upload = rf.message.serialize().to_vec();
                o.export_reg = rf.export_key.to_vec();
                o.spk_reg = rf.server_s_pk.serialize().to_vec();
                let m = RegistrationUpload::<$name>::deserialize(&o.upload).map_err(pe).map_err(at(4))?;
                let file = ServerRegistration::<$name>::finish(m);
                o.file = file.serialize().to_vec();
                let ls = ClientLogin::<$name>::start(t, pw).map_err(pe).map_err(at(5))?;
                o.ke1 = ls.message.serialize().to_vec();
                let file2 = reload_obj(file, &plan[2], |x| x.serialize().to_vec(), |b| ServerRegistration::<$name>::deserialize(b)).map_err(at(6))?;
                let setup2 = reload_obj(setup, &plan[3], |x| x.serialize().to_vec(), |b| ServerSetup::<$name>::deserialize(b)).map_err(at(6))?;
                let m = CredentialRequest::<$name>::deserialize(&o.ke1).map_err(pe).map_err(at(6))?;
                let sl = ServerLogin::start(t, &setup2, Some(file2), m.clone(), cid, ServerLoginStartParameters { context: ctx, identifiers: Identifiers { client: idu, server: ids } }).map_err(pe).map_err(at(6))?;
                o.ke2 = sl.message.serialize().to_vec();
                let fl = ServerLogin::start(t, &setup2, None, m, cid, ServerLoginStartParameters { context: ctx, identifiers: Identifiers { client: idu, server: ids } }).map_err(pe).map_err(at(6))?;
                o.fake_ke2 = fl.message.serialize().to_vec();
                o.fake_state = fl.state.serialize().to_vec();
                let cl = reload_obj(ls.state, &plan[4], |x| x.serialize().to_vec(), |b| ClientLogin::<$name>::deserialize(b)).map_err(at(7))?;
                let m = CredentialResponse::<$name>::deserialize(&o.ke2).map_err(pe).map_err(at(7))?;
                let lf = cl.finish(pw, m, ClientLoginFinishParameters::new(ctx, Identifiers { client: idu, server: ids }, None)).map_err(pe).map_err(at(7))?;
                o.ke3 = lf.message.serialize().to_vec();
                o.sk_client = lf.session_key.to_vec();
                o.export_login = lf.export_key.to_vec();
                o.spk_login = lf.server_s_pk.serialize().to_vec();
                let sst = reload_obj(sl.state, &plan[5], |x| x.serialize().to_vec(), |b| ServerLogin::<$name>::deserialize(b)).map_err(at(8))?;
                let m = CredentialFinalization::<$name>::deserialize(&o.ke3).map_err(pe).map_err(at(8))?;
                o.sk_server = sst.finish(m).map_err(pe).map_err(at(8))?.session_key.to_vec();
                Ok(o)
            }
            fn ke_keypair_pk(&self, sk: &[u8]) -> R<Vec<u8>> {
                Ok(KeyPair::<$ke>::from_private_key_slice(sk).map_err(pe)?.public().serialize().to_vec())
            }
            fn ke_public_key(&self, sk: &[u8]) -> R<Vec<u8>> {
                let s = <$ke as KeGroup>::deserialize_sk(sk).map_err(ie)?;
                Ok(<$ke as KeGroup>::serialize_pk(<$ke as KeGroup>::public_key(s)).to_vec())
            }
            fn ke_dh(&self, sk: &[u8], pk: &[u8]) -> R<Vec<u8>> {
                let s = PrivateKey::<$ke>::deserialize(sk).map_err(ie)?;
                let p = PublicKey::<$ke>::deserialize(pk).map_err(ie)?;
                Ok(s.diffie_hellman(p).map_err(ie)?.to_vec())
            }
            fn ke_sk_recode(&self, sk: &[u8]) -> R<Vec<u8>> {
                Ok(PrivateKey::<$ke>::deserialize(sk).map_err(ie)?.serialize().to_vec())
            }
            fn ke_pk_recode(&self, pk: &[u8]) -> R<Vec<u8>> {
                Ok(PublicKey::<$ke>::deserialize(pk).map_err(ie)?.serialize().to_vec())
            }
            fn ke_derive(&self, seed: &[u8]) -> R<Vec<u8>> {
                if seed.len() != <<$ke as KeGroup>::SkLen as generic_array::typenum::Unsigned>::USIZE {
                    return Err(E::Harness("seed length".into()));
                }
                let sk = <$ke as KeGroup>::derive_auth_keypair::<$oprf>(GenericArray::clone_from_slice(seed)).map_err(ie)?;
                Ok(<$ke as KeGroup>::serialize_sk(sk).to_vec())
            }
            fn ke_random_sk(&self, t: &mut Tape) -> R<Vec<u8>> {
                Ok(<$ke as KeGroup>::serialize_sk(<$ke as KeGroup>::random_sk(t)).to_vec())
            }
            fn ke_sk_serde(&self, sk: &Blob) -> R<Vec<u8>> {
                let k: PrivateKey<$ke> = match sk.codec {
                    Codec::Native | Codec::Clone => PrivateKey::<$ke>::deserialize(&sk.bytes).map_err(ie)?,
                    Codec::Bincode => bincode::deserialize(&sk.bytes).map_err(|_| E::Serde)?,
                    Codec::Json => serde_json::from_slice(&sk.bytes).map_err(|_| E::Serde)?,
                };
                Ok(k.serialize().to_vec())
            }
            fn ke_raw_pk(&self, sk: &[u8]) -> R<Vec<u8>> {
                Ok(<$ke as RawSk>::raw_pk(sk).unwrap_or_default())
            }
            fn ke_raw_dh(&self, sk: &[u8], pk: &[u8]) -> R<Vec<u8>> {
                Ok(<$ke as RawSk>::raw_dh(sk, pk).unwrap_or_default())
            }
            fn ke_sk_encode(&self, sk: &[u8], codec: Codec) -> R<Blob> {
                let k = PrivateKey::<$ke>::deserialize(sk).map_err(ie)?;
                save(&k, codec, |x| x.serialize().to_vec())
            }
            fn ke_pk_encode(&self, pk: &[u8], codec: Codec) -> R<Blob> {
                let k = PublicKey::<$ke>::deserialize(pk).map_err(ie)?;
                save(&k, codec, |x| x.serialize().to_vec())
            }
            fn ke_pk_serde(&self, pk: &Blob) -> R<Vec<u8>> {
                let k: PublicKey<$ke> = match pk.codec {
                    Codec::Native | Codec::Clone => PublicKey::<$ke>::deserialize(&pk.bytes).map_err(ie)?,
                    Codec::Bincode => bincode::deserialize(&pk.bytes).map_err(|_| E::Serde)?,
                    Codec::Json => serde_json::from_slice(&pk.bytes).map_err(|_| E::Serde)?,
                };
                Ok(k.serialize().to_vec())
            }
        }
    };
}

/// marker types: the same suite with an external key of another serialized length
pub struct Len0<S>(pub S);
pub struct LenLong<S>(pub S);
macro_rules! remote {
    ($name:ident, $ke:ty) => {
        remote_impl!($name, $name, $ke, <$ke as KeGroup>::SkLen);
        remote_impl!(Len0<$name>, $name, $ke, generic_array::typenum::U0);
        remote_impl!(LenLong<$name>, $name, $ke, generic_array::typenum::Sum<<$ke as KeGroup>::SkLen, generic_array::typenum::U8>);
    };
}
macro_rules! remote_impl {
    ($wrapper:ty, $name:ident, $ke:ty, $len:ty) => {
        impl RemoteSuite for $wrapper {
            fn r_handle(&self, sk: &[u8]) -> R<Vec<u8>> {
                Ok(Remote::<$ke, $len>::store::<<$name as CipherSuite>::OprfCs>(sk)?.handle.to_vec())
            }
            fn r_keypair(&self, sk: &[u8], fail_at: Option<usize>) -> (R<Vec<u8>>, Vec<String>) {
                let inner = match Remote::<$ke, $len>::store::<<$name as CipherSuite>::OprfCs>(sk) {
                    Ok(k) => k,
                    Err(e) => return (Err(e), vec![]),
                };
                sk_arm(fail_at);
                let r = KeyPair::<$ke, Remote<$ke, $len>>::from_private_key(inner).map(|kp| kp.public().serialize().to_vec()).map_err(pe);
                (r, sk_disarm())
            }
            fn r_setup_with_key(&self, t: &mut Tape, sk: &[u8], fail_at: Option<usize>) -> (R<Vec<u8>>, Vec<String>) {
                let inner = match Remote::<$ke, $len>::store::<<$name as CipherSuite>::OprfCs>(sk) {
                    Ok(k) => k,
                    Err(e) => return (Err(e), vec![]),
                };
                let kp = match KeyPair::<$ke, Remote<$ke, $len>>::from_private_key(inner) {
                    Ok(k) => k,
                    Err(e) => return (Err(pe(e)), vec![]),
                };
                sk_arm(fail_at);
                let s = ServerSetup::<$name, Remote<$ke, $len>>::new_with_key(t, kp);
                let log = sk_disarm();
                (Ok(s.serialize().to_vec()), log)
            }
            fn r_setup_recode(&self, setup: &[u8], fail_at: Option<usize>) -> (R<Vec<u8>>, Vec<String>) {
                sk_arm(fail_at);
                let r = ServerSetup::<$name, Remote<$ke, $len>>::deserialize(setup).map(|s| s.serialize().to_vec()).map_err(pe);
                (r, sk_disarm())
            }
            fn r_sreg_start(&self, setup: &[u8], req: &Blob, cid: &[u8], fail_at: Option<usize>) -> (R<Vec<u8>>, Vec<String>) {
                let s = match ServerSetup::<$name, Remote<$ke, $len>>::deserialize(setup) {
                    Ok(s) => s,
                    Err(e) => return (Err(pe(e)), vec![]),
                };
                let m: RegistrationRequest<$name> = match load(req, |x| RegistrationRequest::<$name>::deserialize(x)) {
                    Ok(m) => m,
                    Err(e) => return (Err(e), vec![]),
                };
                sk_arm(fail_at);
                let r = ServerRegistration::<$name>::start(&s, m, cid).map(|r| r.message.serialize().to_vec()).map_err(pe);
                (r, sk_disarm())
            }
            fn r_slogin_start(&self, t: &mut Tape, setup: &[u8], file: Option<&Blob>, req: &Blob, cid: &[u8], ctx: Ob, idu: Ob, ids: Ob, fail_at: Option<usize>) -> (R<(Vec<u8>, Vec<u8>)>, Vec<String>) {
                let s = match ServerSetup::<$name, Remote<$ke, $len>>::deserialize(setup) {
                    Ok(s) => s,
                    Err(e) => return (Err(pe(e)), vec![]),
                };
                let f: Option<ServerRegistration<$name>> = match file {
                    Some(f) => match load(f, |x| ServerRegistration::<$name>::deserialize(x)) {
                        Ok(f) => Some(f),
                        Err(e) => return (Err(e), vec![]),
                    },
                    None => None,
                };
                let m: CredentialRequest<$name> = match load(req, |x| CredentialRequest::<$name>::deserialize(x)) {
                    Ok(m) => m,
                    Err(e) => return (Err(e), vec![]),
                };
                sk_arm(fail_at);
                let r = ServerLogin::start(t, &s, f, m, cid, ServerLoginStartParameters { context: ctx, identifiers: Identifiers { client: idu, server: ids } })
                    .map(|r| (r.message.serialize().to_vec(), r.state.serialize().to_vec()))
                    .map_err(pe);
                (r, sk_disarm())
            }
        }
    };
}

/// groups whose private-key type is plain bytes (Curve25519: `type Sk = [u8; 32]`) can be driven with RAW, possibly
/// unclamped keys through the public KeGroup functions, bypassing the strict decoder; other groups: not applicable
pub trait RawSk: KeGroup {
    fn raw_pk(_sk: &[u8]) -> Option<Vec<u8>> {
        None
    }
    fn raw_dh(_sk: &[u8], _pk: &[u8]) -> Option<Vec<u8>> {
        None
    }
}
impl RawSk for opaque_ke::Ristretto255 {}
impl RawSk for p256::NistP256 {}
impl RawSk for p384::NistP384 {}
impl RawSk for p521::NistP521 {}
impl RawSk for opaque_ke::Curve25519 {
    fn raw_pk(sk: &[u8]) -> Option<Vec<u8>> {
        let k: [u8; 32] = sk.try_into().ok()?;
        Some(<Self as KeGroup>::serialize_pk(<Self as KeGroup>::public_key(k)).to_vec())
    }
    fn raw_dh(sk: &[u8], pk: &[u8]) -> Option<Vec<u8>> {
        let k: [u8; 32] = sk.try_into().ok()?;
        let p = <Self as KeGroup>::deserialize_pk(pk).ok()?;
        Some(<Self as KeGroup>::diffie_hellman(p, k).to_vec())
    }
}

type Ris = opaque_ke::Ristretto255;
type C25 = opaque_ke::Curve25519;
type P2 = p256::NistP256;
type P3 = p384::NistP384;
type P5 = p521::NistP521;
type Idn = opaque_ke::ksf::Identity;
type Arg = argon2::Argon2<'static>;

macro_rules! family {
    ($ksf:ty, $listfn:ident, [$(($name:ident, $oprf:ty, $ke:ty)),* $(,)?]) => {
        $( suite!($name, $oprf, $ke, $ksf); )*
        pub fn $listfn() -> Vec<&'static dyn Suite> { vec![$(&$name),*] }
    };
}

// Suite names are <OPRF><KE>.  Order: fastest first.
family!(Idn, suites, [
    (RisRis, Ris, Ris), (RisC25, Ris, C25), (P256Ris, P2, Ris), (P256C25, P2, C25), (RisP256, Ris, P2), (P256P256, P2, P2),
    (P384Ris, P3, Ris), (P384C25, P3, C25), (P521Ris, P5, Ris), (P521C25, P5, C25), (P384P256, P3, P2), (P521P256, P5, P2),
    (RisP384, Ris, P3), (P256P384, P2, P3), (P384P384, P3, P3), (P521P384, P5, P3),
    (RisP521, Ris, P5), (P256P521, P2, P5), (P384P521, P3, P5), (P521P521, P5, P5),
]);
remote!(RisRis, Ris); remote!(RisC25, C25); remote!(P256Ris, Ris); remote!(P256C25, C25); remote!(RisP256, P2); remote!(P256P256, P2);
remote!(P384Ris, Ris); remote!(P384C25, C25); remote!(P521Ris, Ris); remote!(P521C25, C25); remote!(P384P256, P2); remote!(P521P256, P2);
remote!(RisP384, P3); remote!(P256P384, P3); remote!(P384P384, P3); remote!(P521P384, P3);
remote!(RisP521, P5); remote!(P256P521, P5); remote!(P384P521, P5); remote!(P521P521, P5);
pub fn remote_suites() -> Vec<&'static dyn RemoteSuite> {
    vec![&RisRis, &RisC25, &P256Ris, &P256C25, &RisP256, &P256P256, &P384Ris, &P384C25, &P521Ris, &P521C25, &P384P256, &P521P256,
         &RisP384, &P256P384, &P384P384, &P521P384, &RisP521, &P256P521, &P384P521, &P521P521]
}
pub fn remote_suites_len0() -> Vec<&'static dyn RemoteSuite> {
    vec![&Len0(RisRis), &Len0(RisC25), &Len0(P256Ris), &Len0(P256C25), &Len0(RisP256), &Len0(P256P256), &Len0(P384Ris), &Len0(P384C25), &Len0(P521Ris), &Len0(P521C25), &Len0(P384P256), &Len0(P521P256),
         &Len0(RisP384), &Len0(P256P384), &Len0(P384P384), &Len0(P521P384), &Len0(RisP521), &Len0(P256P521), &Len0(P384P521), &Len0(P521P521)]
}
pub fn remote_suites_long() -> Vec<&'static dyn RemoteSuite> {
    vec![&LenLong(RisRis), &LenLong(RisC25), &LenLong(P256Ris), &LenLong(P256C25), &LenLong(RisP256), &LenLong(P256P256), &LenLong(P384Ris), &LenLong(P384C25), &LenLong(P521Ris), &LenLong(P521C25), &LenLong(P384P256), &LenLong(P521P256),
         &LenLong(RisP384), &LenLong(P256P384), &LenLong(P384P384), &LenLong(P521P384), &LenLong(RisP521), &LenLong(P256P521), &LenLong(P384P521), &LenLong(P521P521)]
}

pub mod probe {
    use super::*;
    family!(ProbeKsf, suites, [
        (RisRis, Ris, Ris), (RisC25, Ris, C25), (P256Ris, P2, Ris), (P256C25, P2, C25), (RisP256, Ris, P2), (P256P256, P2, P2),
        (P384Ris, P3, Ris), (P384C25, P3, C25), (P521Ris, P5, Ris), (P521C25, P5, C25), (P384P256, P3, P2), (P521P256, P5, P2),
        (RisP384, Ris, P3), (P256P384, P2, P3), (P384P384, P3, P3), (P521P384, P5, P3),
        (RisP521, Ris, P5), (P256P521, P2, P5), (P384P521, P3, P5), (P521P521, P5, P5),
    ]);
}
pub mod argon {
    use super::*;
    family!(Arg, suites, [(RisRis, Ris, Ris), (P256P256, P2, P2), (P384C25, P3, C25)]);
}

pub mod unit {
    use super::*;
    family!(UnitKsf, suites, [(RisRis, Ris, Ris), (P256P256, P2, P2), (P384C25, P3, C25)]);
}

pub fn suite_by_name(family: &str, name: &str) -> Option<&'static dyn Suite> {
    let l = match family {
        "identity" => suites(),
        "probe" => probe::suites(),
        "argon2" => argon::suites(),
        "unit" => unit::suites(),
        _ => return None,
    };
    l.into_iter().find(|s| s.name() == name)
}
/// the external-key driver of a suite for the handle style currently selected on this thread (remote_handle_style):
/// styles 0 and 1 serialize to SkLen bytes, 2 to nothing (Len = U0), 3 to SkLen + 8 bytes
pub fn remote_by_name(name: &str) -> Option<&'static dyn RemoteSuite> {
    let style = HANDLE_STYLE.with(|h| *h.borrow());
    suites().iter().position(|s| s.name() == name).map(|i| match style {
        2 => remote_suites_len0()[i],
        3 => remote_suites_long()[i],
        _ => remote_suites()[i],
    })
}
