//! helpers shared by the drivers
use crate::adapter::{suites, Suite};
use crate::alphabet::PW_DEFAULT;
use crate::api::Api;
use crate::flow::{self, Full, Params};
use crate::refmodel::Kind;
use crate::tape::Tape;
use std::collections::BTreeMap;

/// `Own`: the driver judges its own property; a failing honest step is a failed precondition (exit 2).
/// `Honest`: the driver is run on behalf of C01: only failures of honest, matched behaviour are violations.
#[derive(Clone, Copy, PartialEq, Eq, Debug)]
pub enum Mode {
    Own,
    Honest,
}
/// report the failure of an honest / matched operation according to the mode
pub fn honest_fail(cx: &mut crate::fw::Cx, mode: Mode, key: &str, what: String) {
    match mode {
        Mode::Own => cx.violate(&format!("honest-step/{}", key), what),
        Mode::Honest => cx.violate(&format!("history/{}", key), what),
    }
}
pub fn honest_fail_case(cx: &mut crate::fw::Cx, mode: Mode, key: &str, what: String, case: serde_json::Value) {
    match mode {
        Mode::Own => cx.violate_case(&format!("honest-step/{}", key), what, case),
        Mode::Honest => cx.violate_case(&format!("history/{}", key), what, case),
    }
}

pub fn all_apis() -> Vec<Api> {
    suites().into_iter().map(Api::new).collect()
}
pub fn apis_of(l: Vec<&'static dyn Suite>) -> Vec<Api> {
    l.into_iter().map(Api::new).collect()
}

/// input settings used to reach the artefacts a driver starts from
pub fn setting(i: usize) -> Params {
    let mut p = Params::default_with(PW_DEFAULT);
    match i {
        0 => {}
        1 => {
            p.idu = Some(b"user@example".to_vec());
            p.ids = Some(b"server.example".to_vec());
            p.ctx = Some(b"ctx".to_vec());
            p.pw = b"pw2".to_vec();
            p.cid = b"cid-2".to_vec();
        }
        _ => {
            p.idu = Some(vec![b'i'; 300]);
            p.ids = None;
            p.ctx = Some(vec![]);
            p.pw = vec![];
            p.cid = vec![];
        }
    }
    p
}

/// honest flow on tape `label`; panics (machinery error) if the honest flow itself fails - C01 owns that verdict,
/// other drivers need the artefacts
pub fn honest(api: &Api, seed: u64, label: &str, p: &Params) -> Result<Full, String> {
    let mut t = Tape::seeded(seed, label);
    flow::full(api, &mut t, p).map_err(|e| format!("honest flow failed at {}: {:?}", e.step, e.e))
}

pub fn artefacts(f: &Full) -> BTreeMap<Kind, Vec<u8>> {
    let mut m = BTreeMap::new();
    m.insert(Kind::RegReq, f.reg.req.clone());
    m.insert(Kind::RegResp, f.reg.resp.clone());
    m.insert(Kind::Upload, f.reg.upload.clone());
    m.insert(Kind::CredReq, f.login.ke1.clone());
    m.insert(Kind::CredResp, f.login.ke2.clone());
    m.insert(Kind::Fin, f.login.ke3.clone());
    m.insert(Kind::File, f.reg.file.clone());
    m.insert(Kind::Setup, f.setup.clone());
    m.insert(Kind::CReg, f.reg.creg.clone());
    m.insert(Kind::CLogin, f.login.clogin.clone());
    m.insert(Kind::SLogin, f.login.slogin.clone());
    m
}

// ------------------------------------------------------------------------------------------------
// the input space shared by C01 and C09: tuples (password, credential id, client identity, server identity,
// context, tape) with at most k deviations from the default tuple, plus a boundary product in the thorough tier
// ------------------------------------------------------------------------------------------------
use crate::alphabet as al;
use crate::fw::Tier;

#[derive(Clone, Debug, PartialEq, Eq, Hash)]
pub struct InTuple {
    pub p: Params,
    /// server identity is the explicit spelling of the server's static public key (resolved at run time)
    pub ids_is_server_pk: bool,
    pub tape: usize,
    pub devs: usize,
    /// member of the length-boundary family
    pub boundary: bool,
}
impl InTuple {
    pub fn describe(&self) -> serde_json::Value {
        let mut v = self.p.describe();
        v["tape"] = serde_json::json!(self.tape);
        v["deviations"] = serde_json::json!(self.devs);
        if self.ids_is_server_pk {
            v["ids"] = serde_json::json!("explicit spelling of the server public key");
        }
        v
    }
}

pub fn input_tuples(tier: Tier) -> Vec<InTuple> {
    let (pws, cids, idus, mut idss, ctxs, ntapes, k) = if tier.thorough() {
        (al::passwords_valid(), al::cids_full(), al::idvals_full(), al::idvals_full(), al::ctxvals_full(), 4usize, 3usize)
    } else {
        (al::passwords_core(), al::cids_core(), al::idvals_core(), al::idvals_core(), al::ctxvals_core(), 2usize, 2usize)
    };
    // one more server-identity value: the server's own public key spelled out (marker resolved later)
    idss.push(Some(b"\0SERVER-PK\0".to_vec()));
    let spk_idx = idss.len() - 1;
    let sizes = [pws.len(), cids.len(), idus.len(), idss.len(), ctxs.len(), ntapes];
    let mk = |ix: &[usize], devs: usize| InTuple {
        p: Params { pw: pws[ix[0]].clone(), cid: cids[ix[1]].clone(), idu: idus[ix[2]].clone(), ids: if ix[3] == spk_idx { None } else { idss[ix[3]].clone() }, ctx: ctxs[ix[4]].clone(), ksf: None },
        ids_is_server_pk: ix[3] == spk_idx,
        tape: ix[5],
        devs,
        boundary: false,
    };
    let mut out: Vec<InTuple> = al::deviations(&sizes, k).iter().map(|ix| mk(ix, ix.iter().filter(|x| **x != 0).count())).collect();
    if tier.thorough() {
        // full product over the boundary sub-alphabet {"", 255, 256, 65535 bytes}
        let bpw = vec![pws[1].clone(), pws[11].clone(), pws[12].clone(), pws[13].clone()];
        let bid = vec![idus[1].clone(), idus[4].clone(), idus[5].clone(), idus[6].clone()];
        let bctx = vec![ctxs[1].clone(), ctxs[3].clone(), ctxs[4].clone(), ctxs[5].clone()];
        for ix in al::product(&[4, 4, 4, 4]) {
            out.push(InTuple { p: Params { pw: bpw[ix[0]].clone(), cid: al::CID_DEFAULT.to_vec(), idu: bid[ix[1]].clone(), ids: bid[ix[2]].clone(), ctx: bctx[ix[3]].clone(), ksf: None }, ids_is_server_pk: false, tape: 0, devs: 4, boundary: false });
        }
    }
    // hash-block and length-prefix boundary lengths, one slot at a time (both tiers): a defect conditional on an
    // input length near 32/48/64/128 bytes (digest and block sizes of SHA-256/384/512) would otherwise be missed
    let d = mk(&[0, 0, 0, 0, 0, 0], 0);
    for n in [15usize, 16, 17, 31, 32, 33, 47, 48, 49, 55, 56, 63, 64, 65, 66, 67, 68, 96, 97, 111, 112, 119, 120, 127, 128, 129, 1000] {
        let v = |c: u8| (0..n).map(|i| c.wrapping_add(i as u8)).collect::<Vec<u8>>();
        for slot in 0..5 {
            let mut t = d.clone();
            t.devs = 1;
            t.boundary = true;
            match slot {
                0 => t.p.pw = v(b'p'),
                1 => t.p.cid = v(b'c'),
                2 => t.p.idu = Some(v(b'u')),
                3 => t.p.ids = Some(v(b's')),
                _ => t.p.ctx = Some(v(b'x')),
            }
            out.push(t);
        }
    }
    // credential identifiers have NO length limit (they are never length-prefixed, RFC 9807 4.): well beyond 65535 bytes
    for n in [255usize, 256, 65535, 65536, 65537, 100_000] {
        let mut t = d.clone();
        t.devs = 1;
        t.boundary = true;
        t.p.cid = (0..n).map(|i| b'c'.wrapping_add(i as u8)).collect();
        out.push(t);
    }
    // COINCIDING values: the same byte string in two (or all) slots - a password equal to the user name, an identity
    // equal to the context ...: parameters are varied one at a time elsewhere, so coincidences never arise there
    {
        let v = b"alice@example.com".to_vec();
        let slots = 5usize;
        let mut sets: Vec<Vec<usize>> = vec![(0..slots).collect()];
        for a in 0..slots {
            for b in a + 1..slots {
                sets.push(vec![a, b]);
            }
        }
        for set in sets {
            let mut t = d.clone();
            t.devs = set.len();
            t.boundary = true;
            for slot in set {
                match slot {
                    0 => t.p.pw = v.clone(),
                    1 => t.p.cid = v.clone(),
                    2 => t.p.idu = Some(v.clone()),
                    3 => t.p.ids = Some(v.clone()),
                    _ => t.p.ctx = Some(v.clone()),
                }
            }
            out.push(t);
        }
    }
    // many generators on the default input: a defect conditional on a random VALUE with probability ~1/256 per run (a
    // leading zero byte in a nonce, key share, blinded element or shared secret) needs the value to come up
    for tp in ntapes..(if tier.thorough() { 2048 } else { 256 }) {
        let mut t = d.clone();
        t.tape = tp;
        t.boundary = true;
        out.push(t);
    }
    // dedupe (the product overlaps the deviation set), keeping first occurrences (simplest first)
    let mut seen = std::collections::HashSet::new();
    out.retain(|t| seen.insert(crate::fw::h128(t)));
    out
}
