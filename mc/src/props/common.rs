//! helpers shared by the drivers
use crate::adapter::{suites, Suite};
use crate::alphabet::PW_DEFAULT;
use crate::api::Api;
use crate::flow::{self, Full, Params};
use crate::refmodel::Kind;
use crate::tape::Tape;
use std::collections::BTreeMap;

pub fn all_apis() -> Vec<Api> {
    suites().into_iter().map(Api::new).collect()
}
pub fn apis_of(l: Vec<&'static dyn Suite>) -> Vec<Api> {
    l.into_iter().map(Api::new).collect()
}

/// input settings used to reach the artefacts a driver starts from
pub fn setting(i: usize) -> Params {
    let mut p = Params::default_with(PW_DEFAULT);
    match i {
        0 => {}
        1 => {
            p.idu = Some(b"user@example".to_vec());
            p.ids = Some(b"server.example".to_vec());
            p.ctx = Some(b"ctx".to_vec());
            p.pw = b"pw2".to_vec();
            p.cid = b"cid-2".to_vec();
        }
        _ => {
            p.idu = Some(vec![b'i'; 300]);
            p.ids = None;
            p.ctx = Some(vec![]);
            p.pw = vec![];
            p.cid = vec![];
        }
    }
    p
}

/// honest flow on tape `label`; panics (machinery error) if the honest flow itself fails - C01 owns that verdict,
/// other drivers need the artefacts
pub fn honest(api: &Api, seed: u64, label: &str, p: &Params) -> Result<Full, String> {
    let mut t = Tape::seeded(seed, label);
    flow::full(api, &mut t, p).map_err(|e| format!("honest flow failed at {}: {:?}", e.step, e.e))
}

pub fn artefacts(f: &Full) -> BTreeMap<Kind, Vec<u8>> {
    let mut m = BTreeMap::new();
    m.insert(Kind::RegReq, f.reg.req.clone());
    m.insert(Kind::RegResp, f.reg.resp.clone());
    m.insert(Kind::Upload, f.reg.upload.clone());
    m.insert(Kind::CredReq, f.login.ke1.clone());
    m.insert(Kind::CredResp, f.login.ke2.clone());
    m.insert(Kind::Fin, f.login.ke3.clone());
    m.insert(Kind::File, f.reg.file.clone());
    m.insert(Kind::Setup, f.setup.clone());
    m.insert(Kind::CReg, f.reg.creg.clone());
    m.insert(Kind::CLogin, f.login.clogin.clone());
    m.insert(Kind::SLogin, f.login.slogin.clone());
    m
}
