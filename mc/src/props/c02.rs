//! C02 - a wrong password never logs in.
//! Enumerated: all ordered pairs (registered pw, login pw') of the 15-password alphabet, pw != pw' (210 pairs) x 2
//! identity/context settings x 20 suites.  Oracle: the client's final step returns exactly InvalidLoginError; the
//! pending server state accepts none of {zeros, an honest finalization of the same user, of another user}.
use super::common::*;
use crate::adapter::{Blob, E};
use crate::alphabet::{self as al, desc};
use crate::api::Api;
use crate::flow::{self, o, Params};
use crate::fw::{self, Cx, Report, Tier};
use crate::tape::Tape;
use serde_json::json;
use std::time::Instant;

fn explore(api: &Api, setting_ix: usize, pi: usize, tier: Tier, seed: u64, cx: &mut Cx) {
    let pws = al::passwords_valid();
    let mut base = setting(setting_ix);
    base.pw = pws[pi].clone();
    let mut t = Tape::seeded(seed, &format!("c02/{}/{}", setting_ix, pi));
    let world = (|| -> Result<_, flow::StepErr> {
        let setup = api.setup(&mut t).map_err(|e| flow::StepErr { step: "setup", e })?;
        let reg = flow::register(api, &mut t, &setup, &base.pw, &base.cid, o(&base.idu), o(&base.ids), None)?;
        // an honest session of the same user and one of another user (sources of well-formed finalizations)
        let honest = flow::login(api, &mut t, &setup, Some(&reg.file), &base.pw, &base.cid, o(&base.ctx), o(&base.idu), o(&base.ids), None)?;
        let other = flow::register(api, &mut t, &setup, b"other user's password", b"bob", o(&base.idu), o(&base.ids), None)?;
        let other_login = flow::login(api, &mut t, &setup, Some(&other.file), b"other user's password", b"bob", o(&base.ctx), o(&base.idu), o(&base.ids), None)?;
        Ok((setup, reg, honest, other_login))
    })();
    let (setup, reg, honest, other_login) = match world {
        Ok(w) => w,
        Err(e) => {
            cx.violate_case(&format!("honest-step/{}", e.step), format!("honest step {} failed: {:?}", e.step, e.e), json!({"registered": desc(&base.pw)}));
            return;
        }
    };
    cx.context_done();
    // login attempts: every other password of the alphabet; and, for the default and the 256-byte registered password,
    // EVERY single-bit flip, every single-byte deletion and every single-byte duplication of the registered password
    let mut attempts: Vec<Vec<u8>> = pws.iter().enumerate().filter(|(qi, _)| *qi != pi).map(|(_, p)| p.clone()).collect();
    if pi == 0 || (pi == 12 && tier.thorough()) {
        let b = &base.pw;
        for i in 0..b.len() {
            for bit in 0..8 {
                let mut m = b.clone();
                m[i] ^= 1 << bit;
                attempts.push(m);
            }
            let mut m = b.clone();
            m.remove(i);
            attempts.push(m);
            let mut m = b.clone();
            m.insert(i, b[i]);
            attempts.push(m);
        }
    }
    attempts.retain(|a| a != &base.pw);
    for (qi, pw2) in attempts.iter().enumerate() {
        cx.begin_case(json!({"registered_pw": desc(&base.pw), "login_pw": desc(pw2), "setting": setting_ix}));
        cx.state(&(setting_ix, pi, pw2));
        let _ = qi;
        cx.path();
        cx.edges += 3;
        let r = (|| -> Result<(), (String, String)> {
            // every password of this alphabet is within bounds: an attempt that cannot even start does not end in the
            // client's final step failing with InvalidLoginError, which is what the property states
            let (ke1, cl) = api.login_start(&mut t, pw2).map_err(|e| match e {
                E::RngFault => ("machinery/rng".to_string(), format!("{:?}", e)),
                e => ("login_start/refuses-wrong-password".to_string(), format!("a login attempt with a wrong (valid-length) password is refused by the client's FIRST step with {:?}; the property demands InvalidLoginError from the final step", e)),
            })?;
            let (ke2, sl) = api
                .slogin_start(&mut t, &Blob::n(&setup), Some(&Blob::n(&reg.file)), &Blob::n(&ke1), &base.cid, o(&base.ctx), o(&base.idu), o(&base.ids))
                .map_err(|e| ("honest-step/slogin_start".to_string(), format!("{:?}", e)))?;
            match api.login_finish(&Blob::n(&cl), pw2, &Blob::n(&ke2), o(&base.ctx), o(&base.idu), o(&base.ids), None) {
                Err(E::InvalidLogin) => {}
                Err(e) => return Err(("login_finish/wrong-error".into(), format!("wrong password is rejected with {:?}, not InvalidLoginError", e))),
                Ok(_) => return Err(("login_finish/ACCEPTED".into(), "client login finish SUCCEEDS with a wrong password".into())),
            }
            let zeros = vec![0u8; honest.ke3.len()];
            for (n, fin) in [("zeros", &zeros), ("same-user-honest-session", &honest.ke3), ("other-user-session", &other_login.ke3)] {
                match api.slogin_finish(&Blob::n(&sl), &Blob::n(fin)) {
                    Err(_) => {}
                    Ok(_) => return Err((format!("slogin_finish/ACCEPTED/{}", n), format!("server completes a wrong-password session on finalization candidate {}", n))),
                }
            }
            Ok(())
        })();
        match r {
            Ok(()) => cx.outcome("rejected-InvalidLoginError"),
            Err((k, w)) => {
                cx.outcome("VIOLATION");
                cx.violate(&k, w);
            }
        }
        // the login's two client steps each take the password: a login that uses the wrong one in only ONE of them is a
        // wrong-password login too (first 8 attempts of every item)
        if qi < 8 {
            for (variant, p_start, p_finish) in [("right-at-start/wrong-at-finish", &base.pw, pw2), ("wrong-at-start/right-at-finish", pw2, &base.pw)] {
                cx.begin_case(json!({"registered_pw": desc(&base.pw), "login_pw": desc(pw2), "variant": variant, "setting": setting_ix}));
                if !cx.state(&(setting_ix, pi, pw2, variant)) {
                    continue;
                }
                cx.path();
                cx.edges += 3;
                let r = (|| -> Result<Result<(), E>, E> {
                    let (ke1, cl) = api.login_start(&mut t, p_start)?;
                    let (ke2, _) = api.slogin_start(&mut t, &Blob::n(&setup), Some(&Blob::n(&reg.file)), &Blob::n(&ke1), &base.cid, o(&base.ctx), o(&base.idu), o(&base.ids))?;
                    Ok(api.login_finish(&Blob::n(&cl), p_finish, &Blob::n(&ke2), o(&base.ctx), o(&base.idu), o(&base.ids), None).map(|_| ()))
                })();
                match r {
                    Ok(Err(E::InvalidLogin)) => cx.outcome("rejected-InvalidLoginError"),
                    Ok(Err(e)) => cx.violate(&format!("login_finish/wrong-error/{}", variant), format!("a login with the wrong password in one client step ({}) is rejected with {:?}, not InvalidLoginError", variant, e)),
                    Ok(Ok(())) => cx.violate(&format!("login_finish/ACCEPTED/{}", variant), format!("a login with the wrong password in one client step ({}) succeeds", variant)),
                    Err(e) => cx.violate("honest-step/login", format!("{:?}", e)),
                }
            }
        }
    }
    cx.sample(json!({"suite": api.name(), "registered_pw": desc(&base.pw), "login_pws": pws.iter().map(|p| desc(p)).collect::<Vec<_>>(), "setting": Params::describe(&base)}));
}

/// the same question under a maximally LOSSY key-stretching function (constant output): a wrong password must still
/// fail, because the randomized password is Extract(oprf_output || Stretch(oprf_output)) and keeps the first half
fn lossy_ksf(api: &Api, seed: u64, cx: &mut Cx) {
    let pws: Vec<Vec<u8>> = vec![al::PW_DEFAULT.to_vec(), vec![], b"correct horsf".to_vec(), vec![b'x'; 256], vec![0u8]];
    let mut t = Tape::seeded(seed, "c02/lossy");
    let setup = match api.setup(&mut t) {
        Ok(s) => s,
        Err(e) => {
            cx.violate_case("honest-step/setup", format!("{:?}", e), json!({}));
            return;
        }
    };
    cx.context_done();
    for (pi, pw) in pws.iter().enumerate() {
        let reg = match flow::register(api, &mut t, &setup, pw, b"alice", None, None, Some(99)) {
            Ok(r) => r,
            Err(e) => {
                cx.violate_case(&format!("honest-step/{}", e.step), format!("registration under a constant KSF fails: {:?}", e.e), json!({}));
                continue;
            }
        };
        for (qi, pw2) in pws.iter().enumerate() {
            cx.begin_case(json!({"ksf": "constant output", "registered_pw": desc(pw), "login_pw": desc(pw2)}));
            cx.state(&("lossy", pi, qi));
            cx.path();
            cx.edges += 3;
            let r = (|| -> Result<Result<(), E>, E> {
                let (ke1, cl) = api.login_start(&mut t, pw2)?;
                let (ke2, _) = api.slogin_start(&mut t, &Blob::n(&setup), Some(&Blob::n(&reg.file)), &Blob::n(&ke1), b"alice", None, None, None)?;
                Ok(api.login_finish(&Blob::n(&cl), pw2, &Blob::n(&ke2), None, None, None, Some(99)).map(|_| ()))
            })();
            match (r, pi == qi) {
                (Ok(Ok(())), true) => cx.outcome("lossy-ksf-correct-password-accepted"),
                (Ok(Err(E::InvalidLogin)), false) => cx.outcome("lossy-ksf-wrong-password-rejected"),
                (Ok(Ok(())), false) => {
                    cx.outcome("VIOLATION");
                    cx.violate("login_finish/ACCEPTED/lossy-ksf", "a wrong password logs in when the key-stretching function is lossy (constant): the secrets do not depend on the OPRF output itself".into());
                }
                (Ok(Err(e)), false) => cx.violate("login_finish/wrong-error/lossy-ksf", format!("wrong password rejected with {:?}, not InvalidLoginError", e)),
                (Ok(Err(e)), true) => cx.violate("honest-step/login_finish", format!("correct password rejected under a constant KSF: {:?}", e)),
                (Err(e), _) => cx.violate("honest-step/login", format!("{:?}", e)),
            }
        }
    }
}

pub fn run(tier: Tier, seed: u64) -> i32 {
    let t0 = Instant::now();
    let n = al::passwords_valid().len();
    let mut items = vec![];
    for api in all_apis() {
        for s in 0..2 {
            for pi in 0..n {
                items.push((api, s, pi));
            }
        }
    }
    let mut tot = fw::run_items("C02", &items, |(a, _, _)| a.name().to_string(), |(api, s, pi), cx| explore(api, *s, *pi, tier, seed, cx));
    let papis = apis_of(crate::adapter::probe::suites());
    tot.merge(fw::run_items("C02", &papis, |a| format!("probe:{}", a.name()), |api, cx| lossy_ksf(api, seed, cx)));
    let rep = Report {
        property: "C02",
        tier,
        seed,
        rule: "all ordered pairs (registered, login) of distinct passwords from the 15-password alphabet x 2 identity/context settings x 20 suites; each pair is one path: login start, server start on the registered file, client finish, then 3 finalization candidates against the pending server state".into(),
        bounds: json!({"suites": 20, "passwords": n, "ordered_pairs": n * (n - 1), "settings": 2, "near_misses_of_registered_password": "all single-bit flips, single-byte deletions and duplications of the default password (thorough: also of the 256-byte one)"}),
        assumptions: vec![],
        exhaustive: true,
        crosscheck: json!(null),
    };
    fw::finish(rep, tot, t0)
}
