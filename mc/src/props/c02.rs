//! C02 - a wrong password never logs in.
//! Enumerated: all ordered pairs (registered pw, login pw') of the 15-password alphabet, pw != pw' (210 pairs) x 2
//! identity/context settings x 20 suites.  Oracle: the client's final step returns exactly InvalidLoginError; the
//! pending server state accepts none of {zeros, an honest finalization of the same user, of another user}.
use super::common::*;
use crate::adapter::{Blob, E};
use crate::alphabet::{self as al, desc};
use crate::api::Api;
use crate::flow::{self, o, Params};
use crate::fw::{self, Cx, Report, Tier};
use crate::tape::Tape;
use serde_json::json;
use std::time::Instant;

fn explore(api: &Api, setting_ix: usize, pi: usize, tier: Tier, seed: u64, cx: &mut Cx) {
    let pws = al::passwords_valid();
    let mut base = setting(setting_ix);
    base.pw = pws[pi].clone();
    let mut t = Tape::seeded(seed, &format!("c02/{}/{}", setting_ix, pi));
    let world = (|| -> Result<_, flow::StepErr> {
        let setup = api.setup(&mut t).map_err(|e| flow::StepErr { step: "setup", e })?;
        let reg = flow::register(api, &mut t, &setup, &base.pw, &base.cid, o(&base.idu), o(&base.ids), None)?;
        // an honest session of the same user and one of another user (sources of well-formed finalizations)
        let honest = flow::login(api, &mut t, &setup, Some(&reg.file), &base.pw, &base.cid, o(&base.ctx), o(&base.idu), o(&base.ids), None)?;
        let other = flow::register(api, &mut t, &setup, b"other user's password", b"bob", o(&base.idu), o(&base.ids), None)?;
        let other_login = flow::login(api, &mut t, &setup, Some(&other.file), b"other user's password", b"bob", o(&base.ctx), o(&base.idu), o(&base.ids), None)?;
        Ok((setup, reg, honest, other_login))
    })();
    let (setup, reg, honest, other_login) = match world {
        Ok(w) => w,
        Err(e) => {
            cx.violate_case(&format!("honest-step/{}", e.step), format!("honest step {} failed: {:?}", e.step, e.e), json!({"registered": desc(&base.pw)}));
            return;
        }
    };
    cx.context_done();
    // login attempts: every other password of the alphabet; and, for the default and the 256-byte registered password,
    // EVERY single-bit flip, every single-byte deletion and every single-byte duplication of the registered password
    let mut attempts: Vec<Vec<u8>> = pws.iter().enumerate().filter(|(qi, _)| *qi != pi).map(|(_, p)| p.clone()).collect();
    if pi == 0 || (pi == 12 && tier.thorough()) {
        let b = &base.pw;
        for i in 0..b.len() {
            for bit in 0..8 {
                let mut m = b.clone();
                m[i] ^= 1 << bit;
                attempts.push(m);
            }
            let mut m = b.clone();
            m.remove(i);
            attempts.push(m);
            let mut m = b.clone();
            m.insert(i, b[i]);
            attempts.push(m);
        }
    }
    attempts.retain(|a| a != &base.pw);
    for (qi, pw2) in attempts.iter().enumerate() {
        cx.begin_case(json!({"registered_pw": desc(&base.pw), "login_pw": desc(pw2), "setting": setting_ix}));
        cx.state(&(setting_ix, pi, pw2));
        let _ = qi;
        cx.path();
        cx.edges += 3;
        let r = (|| -> Result<(), (String, String)> {
            let (ke1, cl) = api.login_start(&mut t, pw2).map_err(|e| ("honest-step/login_start".to_string(), format!("{:?}", e)))?;
            let (ke2, sl) = api
                .slogin_start(&mut t, &Blob::n(&setup), Some(&Blob::n(&reg.file)), &Blob::n(&ke1), &base.cid, o(&base.ctx), o(&base.idu), o(&base.ids))
                .map_err(|e| ("honest-step/slogin_start".to_string(), format!("{:?}", e)))?;
            match api.login_finish(&Blob::n(&cl), pw2, &Blob::n(&ke2), o(&base.ctx), o(&base.idu), o(&base.ids), None) {
                Err(E::InvalidLogin) => {}
                Err(e) => return Err(("login_finish/wrong-error".into(), format!("wrong password is rejected with {:?}, not InvalidLoginError", e))),
                Ok(_) => return Err(("login_finish/ACCEPTED".into(), "client login finish SUCCEEDS with a wrong password".into())),
            }
            let zeros = vec![0u8; honest.ke3.len()];
            for (n, fin) in [("zeros", &zeros), ("same-user-honest-session", &honest.ke3), ("other-user-session", &other_login.ke3)] {
                match api.slogin_finish(&Blob::n(&sl), &Blob::n(fin)) {
                    Err(_) => {}
                    Ok(_) => return Err((format!("slogin_finish/ACCEPTED/{}", n), format!("server completes a wrong-password session on finalization candidate {}", n))),
                }
            }
            Ok(())
        })();
        match r {
            Ok(()) => cx.outcome("rejected-InvalidLoginError"),
            Err((k, w)) => {
                cx.outcome("VIOLATION");
                cx.violate(&k, w);
            }
        }
    }
    cx.sample(json!({"suite": api.name(), "registered_pw": desc(&base.pw), "login_pws": pws.iter().map(|p| desc(p)).collect::<Vec<_>>(), "setting": Params::describe(&base)}));
}

pub fn run(tier: Tier, seed: u64) -> i32 {
    let t0 = Instant::now();
    let n = al::passwords_valid().len();
    let mut items = vec![];
    for api in all_apis() {
        for s in 0..2 {
            for pi in 0..n {
                items.push((api, s, pi));
            }
        }
    }
    let tot = fw::run_items("C02", &items, |(a, _, _)| a.name().to_string(), |(api, s, pi), cx| explore(api, *s, *pi, tier, seed, cx));
    let rep = Report {
        property: "C02",
        tier,
        seed,
        rule: "all ordered pairs (registered, login) of distinct passwords from the 15-password alphabet x 2 identity/context settings x 20 suites; each pair is one path: login start, server start on the registered file, client finish, then 3 finalization candidates against the pending server state".into(),
        bounds: json!({"suites": 20, "passwords": n, "ordered_pairs": n * (n - 1), "settings": 2, "near_misses_of_registered_password": "all single-bit flips, single-byte deletions and duplications of the default password (thorough: also of the 256-byte one)"}),
        assumptions: vec![],
        exhaustive: true,
        crosscheck: json!(null),
    };
    fw::finish(rep, tot, t0)
}
