//! C03 - the server completes login only on the matching client finalization.
//! Enumerated: pending server states {real record & matched client, real record & wrong-password client, no record}
//! x finalization candidates: the genuine one; ALL single-bit flips and ALL single-byte substitutions of it;
//! finalizations of another session of the same user / another user / another password / another server; constants;
//! tape strings; truncations and extensions.  Oracle: Ok(key) iff candidate == genuine and the state is the matched
//! one (then key == client's); otherwise exactly InvalidLoginError (a decoding failure also counts as rejection).
use super::common::*;
use crate::adapter::{Blob, E};
use crate::api::Api;
use crate::flow::{self, o};
use crate::fw::{self, Cx, Report, Tier};
use crate::tape::Tape;
use rand::RngCore;
use serde_json::json;
use std::time::Instant;

fn explore(api: &Api, setting_ix: usize, seed: u64, cx: &mut Cx) {
    let p = setting(setting_ix);
    let mut t = Tape::seeded(seed, &format!("c03/{}", setting_ix));
    let w = (|| -> Result<_, flow::StepErr> {
        let er = |step: &'static str| move |e: E| flow::StepErr { step, e };
        let setup = api.setup(&mut t).map_err(er("setup"))?;
        let setup2 = api.setup(&mut t).map_err(er("setup"))?;
        let reg = flow::register(api, &mut t, &setup, &p.pw, &p.cid, o(&p.idu), o(&p.ids), None)?;
        let matched = flow::login(api, &mut t, &setup, Some(&reg.file), &p.pw, &p.cid, o(&p.ctx), o(&p.idu), o(&p.ids), None)?;
        let again = flow::login(api, &mut t, &setup, Some(&reg.file), &p.pw, &p.cid, o(&p.ctx), o(&p.idu), o(&p.ids), None)?;
        let bob = flow::register(api, &mut t, &setup, b"bob's password", b"bob", o(&p.idu), o(&p.ids), None)?;
        let bob_login = flow::login(api, &mut t, &setup, Some(&bob.file), b"bob's password", b"bob", o(&p.ctx), o(&p.idu), o(&p.ids), None)?;
        let reg_pw2 = flow::register(api, &mut t, &setup, b"another password", &p.cid, o(&p.idu), o(&p.ids), None)?;
        let pw2_login = flow::login(api, &mut t, &setup, Some(&reg_pw2.file), b"another password", &p.cid, o(&p.ctx), o(&p.idu), o(&p.ids), None)?;
        let reg_s2 = flow::register(api, &mut t, &setup2, &p.pw, &p.cid, o(&p.idu), o(&p.ids), None)?;
        let s2_login = flow::login(api, &mut t, &setup2, Some(&reg_s2.file), &p.pw, &p.cid, o(&p.ctx), o(&p.idu), o(&p.ids), None)?;
        // wrong-password client: pending server state exists, client fails
        let (ke1w, _clw) = api.login_start(&mut t, b"wrong password").map_err(er("login_start"))?;
        let (ke2w, slw) = api.slogin_start(&mut t, &Blob::n(&setup), Some(&Blob::n(&reg.file)), &Blob::n(&ke1w), &p.cid, o(&p.ctx), o(&p.idu), o(&p.ids)).map_err(er("slogin_start"))?;
        // fake record
        let (ke1f, _clf) = api.login_start(&mut t, &p.pw).map_err(er("login_start"))?;
        let (ke2f, slf) = api.slogin_start(&mut t, &Blob::n(&setup), None, &Blob::n(&ke1f), b"nobody", o(&p.ctx), o(&p.idu), o(&p.ids)).map_err(er("slogin_start"))?;
        let spk = api.setup_pk(&Blob::n(&setup)).map_err(er("setup_pk"))?;
        Ok((matched, again, bob_login, pw2_login, s2_login, slw, slf, reg.file.clone(), spk, (ke1w, ke2w), (ke1f, ke2f), setup.clone()))
    })();
    let (matched, again, bob_login, pw2_login, s2_login, slw, slf, reg_file, spk, sess_w, sess_f, setup_bytes) = match w {
        Ok(w) => w,
        Err(e) => {
            cx.violate_case(&format!("honest-step/{}", e.step), format!("honest step {} failed: {:?}", e.step, e.e), json!({}));
            return;
        }
    };
    cx.context_done();
    let genuine = matched.ke3.clone();
    let nh = genuine.len();
    // candidate menu: (class, bytes)
    let mut cands: Vec<(String, Vec<u8>)> = vec![("genuine".into(), genuine.clone())];
    for i in 0..nh {
        for b in 0..8 {
            let mut m = genuine.clone();
            m[i] ^= 1 << b;
            cands.push(("bitflip".into(), m));
        }
    }
    for i in 0..nh {
        for v in 0..=255u8 {
            if v != genuine[i] {
                let mut m = genuine.clone();
                m[i] = v;
                cands.push(("bytesub".into(), m));
            }
        }
    }
    // ALL pairs of positions altered together: by the same XOR mask (a comparison that folds differences with ^ instead
    // of |, byte- or word-wise, cancels them) and by +1/-1 (one that sums them); explored on the natively stored states
    for i in 0..nh {
        for j in i + 1..nh {
            for d in [0x01u8, 0x80, 0xff] {
                let mut m = genuine.clone();
                m[i] ^= d;
                m[j] ^= d;
                cands.push(("pairsub".into(), m));
            }
            let mut m = genuine.clone();
            m[i] = m[i].wrapping_add(1);
            m[j] = m[j].wrapping_sub(1);
            cands.push(("pairsub".into(), m));
        }
    }
    cands.push(("other-session-same-user".into(), again.ke3.clone()));
    cands.push(("other-user".into(), bob_login.ke3.clone()));
    cands.push(("other-password".into(), pw2_login.ke3.clone()));
    cands.push(("other-server".into(), s2_login.ke3.clone()));
    cands.push(("zeros".into(), vec![0u8; nh]));
    cands.push(("ones".into(), vec![0xffu8; nh]));
    // values a confused implementation might compare against
    cands.push(("session-key".into(), matched.sk_server.clone()));
    cands.push(("server-mac".into(), matched.ke2[matched.ke2.len() - nh..].to_vec()));
    // finalizations an OUTSIDER could compute from the public transcript alone if the key schedule did not depend on
    // the Diffie-Hellman secrets (all-zero or empty shared secrets)
    {
        let sp = api.spec;
        let lay = sp.layout(crate::refmodel::Kind::CredResp);
        let ke2 = &matched.ke2;
        let cred_resp_len = lay[0].len + lay[1].len + lay[2].len;
        let cpk = sp.field(crate::refmodel::Kind::File, "client_pk").of(&reg_file).to_vec();
        let spk_b = spk.clone();
        let idc = p.idu.clone().unwrap_or(cpk);
        let idsv = p.ids.clone().unwrap_or(spk_b);
        // ... for the matched session, and for the sessions in which NO client ever accepts (wrong password; no record)
        let fake_pk = sp.ke.pubkey(sp.field(crate::refmodel::Kind::Setup, "fake_sk").of(&setup_bytes));
        let idc_fake = p.idu.clone().unwrap_or(fake_pk);
        for (who, k1, k2, idc_x) in [("matched", &matched.ke1, ke2, &idc), ("wrong-password-session", &sess_w.0, &sess_w.1, &idc), ("no-record-session", &sess_f.0, &sess_f.1, &idc_fake)] {
            let pre = sp.preamble(&p.ctx.clone().unwrap_or_default(), idc_x, k1, &idsv, &k2[..cred_resp_len], lay[3].of(k2), lay[4].of(k2));
            let server_mac = lay[5].of(k2);
            for (nm, ikm) in [("zero-dh", vec![0u8; 3 * sp.npk()]), ("empty-dh", vec![])] {
                let (_, km3, _, _) = sp.derive_keys(&ikm, &pre);
                let th2 = sp.h().hash(&[&pre, server_mac]);
                cands.push((format!("outsider/{}/{}", nm, who), crate::refmodel::hmac(sp.h(), &km3, &[&th2])));
            }
        }
    }
    for k in 0..4 {
        let mut r = vec![0u8; nh];
        Tape::seeded(seed, &format!("c03/rand/{}", k)).fill_bytes(&mut r);
        cands.push(("tape-string".into(), r));
    }
    for l in [0usize, 1, nh - 1] {
        cands.push(("truncated".into(), genuine[..l].to_vec()));
    }
    for extra in [1usize, 2, nh] {
        let mut m = genuine.clone();
        m.extend(vec![0u8; extra]);
        cands.push(("extended".into(), m));
    }
    let states: [(&str, &Vec<u8>); 4] = [("matched", &matched.slogin), ("other-session", &again.slogin), ("wrong-password-client", &slw), ("no-record", &slf)];
    // every pending state is also explored as it comes back from a save/reload through serde (bincode, JSON)
    let mut state_blobs: Vec<(&str, &str, Blob)> = vec![];
    for (sname, sst) in states {
        state_blobs.push((sname, "native", Blob::n(sst)));
        for (cn, codec) in [("bincode", crate::adapter::Codec::Bincode), ("json", crate::adapter::Codec::Json)] {
            match api.recode(crate::refmodel::Kind::SLogin, &Blob::n(sst), codec) {
                Ok(b) => state_blobs.push((sname, cn, b)),
                Err(e) => cx.violate_case("machinery/state-reload", format!("cannot save a pending server state through {}: {:?}", cn, e), json!({})),
            }
        }
    }
    for (sname, codec_name, sblob) in &state_blobs {
        let sname = *sname;
        for (class, c) in &cands {
            if class == "pairsub" && *codec_name != "native" {
                continue;
            }
            let expect_ok = sname == "matched" && c == &genuine;
            // (the second honest session accepts its own finalization, which is in the menu as other-session-same-user)
            let expect_ok = expect_ok || (sname == "other-session" && c == &again.ke3);
            cx.begin_case(json!({"server_state": sname, "state_reloaded_through": codec_name, "candidate_class": class, "candidate": hex::encode(c), "setting": setting_ix}));
            if !cx.state(&(setting_ix, sname, codec_name, c)) {
                continue;
            }
            cx.edges += 1;
            cx.path();
            match (api.slogin_finish(sblob, &Blob::n(c)), expect_ok) {
                (Ok(k), true) => {
                    let want = if sname == "matched" { &matched.sk_client } else { &again.sk_client };
                    if &k != want {
                        cx.violate("accept/key-differs", "server session key differs from the client's".into());
                    }
                    cx.outcome("accepted-genuine");
                }
                (Err(e), true) => {
                    cx.outcome("REJECTED-GENUINE");
                    if *codec_name == "native" {
                        cx.violate("honest-step/reject-genuine", format!("server rejects the genuine finalization: {:?}", e));
                    } else {
                        cx.violate(&format!("honest-step/reject-genuine-after-{}-reload", codec_name), format!("server rejects the genuine finalization after its state was reloaded through {}: {:?} (C13's business)", codec_name, e));
                    }
                }
                (Ok(_), false) => {
                    cx.outcome("ACCEPTED-FORGED");
                    cx.violate(&format!("ACCEPTED/{}/{}/{}", sname, class, codec_name), format!("server login finish returns a session key for a non-matching finalization (state {} [{}], candidate {})", sname, codec_name, class));
                }
                (Err(E::InvalidLogin), false) => cx.outcome("rejected-InvalidLoginError"),
                (Err(E::Panic(m)), false) => cx.violate("panic", m),
                (Err(e), false) => {
                    if class == "truncated" || class == "extended" {
                        cx.outcome("rejected-by-decoder");
                    } else {
                        cx.outcome("rejected-other-error");
                        cx.violate(&format!("wrong-error/{}/{}", sname, class), format!("non-matching finalization rejected with {:?}, the property names InvalidLoginError", e));
                    }
                }
            }
        }
    }
    // value-conditional states: sessions whose genuine finalization STARTS or ENDS with a zero byte (1 in 256 each), found by
    // running logins on generators 0, 1, 2, ... until one comes up; every single-byte substitution must be refused on them
    // too (a comparison that strips leading zeros, or treats the tag as a NUL-terminated string, compares less)
    if setting_ix == 0 {
        let mut found: [Option<flow::Login>; 2] = [None, None];
        for i in 0..4096 {
            if found.iter().all(|f| f.is_some()) {
                break;
            }
            let mut lt = Tape::seeded(seed, &format!("c03/zero-edge/{}", i));
            if let Ok(l) = flow::login(api, &mut lt, &setup_bytes, Some(&reg_file), &p.pw, &p.cid, o(&p.ctx), o(&p.idu), o(&p.ids), None) {
                if l.ke3[0] == 0 && found[0].is_none() {
                    found[0] = Some(l.clone());
                }
                if l.ke3[l.ke3.len() - 1] == 0 && found[1].is_none() {
                    found[1] = Some(l);
                }
            }
        }
        for (which, f) in ["finalization starts with 00", "finalization ends with 00"].iter().zip(found.iter()) {
            let l = match f {
                Some(l) => l,
                None => {
                    cx.undetermined += 1;
                    cx.outcome("zero-edge-session-not-found");
                    continue;
                }
            };
            for i in 0..l.ke3.len() {
                for v in 0..=255u8 {
                    if v == l.ke3[i] {
                        continue;
                    }
                    let mut m = l.ke3.clone();
                    m[i] = v;
                    cx.begin_case(json!({"server_state": which, "candidate_class": "bytesub", "candidate": hex::encode(&m)}));
                    if !cx.state(&(which, &m)) {
                        continue;
                    }
                    cx.edges += 1;
                    cx.path();
                    match api.slogin_finish(&Blob::n(&l.slogin), &Blob::n(&m)) {
                        Err(E::InvalidLogin) => cx.outcome("rejected-InvalidLoginError"),
                        Err(e) => cx.violate(&format!("wrong-error/zero-edge/{}", which), format!("non-matching finalization rejected with {:?}, the property names InvalidLoginError", e)),
                        Ok(_) => {
                            cx.outcome("ACCEPTED-FORGED");
                            cx.violate("ACCEPTED/zero-edge/bytesub", format!("server login finish returns a session key for a finalization altered at byte {} (session whose genuine {})", i, which));
                        }
                    }
                }
            }
        }
    }
    cx.sample(json!({"suite": api.name(), "states": ["matched", "other-session", "wrong-password-client", "no-record"], "candidates": cands.len(), "genuine": hex::encode(&genuine)}));
    let _ = fw::h128(&0u8);
}

pub fn run(tier: Tier, seed: u64) -> i32 {
    let t0 = Instant::now();
    let mut items = vec![];
    for api in all_apis() {
        for s in 0..2 {
            items.push((api, s));
        }
    }
    let tot = fw::run_items("C03", &items, |(a, _)| a.name().to_string(), |(api, s), cx| explore(api, *s, seed, cx));
    let rep = Report {
        property: "C03",
        tier,
        seed,
        rule: "4 pending server states x the complete candidate menu (genuine; all Nh*8 bit flips; all Nh*255 byte substitutions; all pairs of positions altered by a common XOR mask (01, 80, ff) or by +1/-1; foreign finalizations; constants; confusable values; tape strings; truncations/extensions) x 2 settings x 20 suites; each (state, candidate) is one transition of ServerLogin::finish".into(),
        bounds: json!({"suites": 20, "settings": 2, "server_states": 4, "state_codecs": ["native", "bincode", "json"], "bit_flips": "all", "byte_substitutions": "all offsets x 255 values", "zero_edge_sessions": "sessions found on generators 0..4095 whose genuine finalization starts / ends with 00: all byte substitutions", "pair_substitutions": "all position pairs x {xor 01, xor 80, xor ff, +1/-1} (native states)", "quick_equals_thorough": true}),
        assumptions: vec![],
        exhaustive: true,
        crosscheck: json!(null),
    };
    fw::finish(rep, tot, t0)
}
