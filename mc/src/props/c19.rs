//! C19 - key-exchange group operations obey their laws.
//! Enumerated per suite (KE group x OPRF suite): a key alphabet {1, 2, n-1, n-2 (clamped extremes for Curve25519),
//! keys derived from seeds {00.., ff.., 3 tape seeds}, 2 random_sk draws}: all ordered pairs for DH symmetry; public
//! key from KeGroup::public_key, from KeyPair::from_private_key_slice and from the reference arithmetic agree;
//! sk / pk encode(decode()) identity; derive_auth_keypair(seed) equals the reference DeriveDiffieHellmanKeyPair,
//! is non-zero and decodes.
use super::common::*;
use crate::api::Api;
use crate::fw::{self, Cx, Report, Tier};
use crate::tape::Tape;
use rand::RngCore;
use serde_json::json;
use std::time::Instant;

fn explore(api: &Api, seed: u64, cx: &mut Cx) {
    let sp = api.spec;
    let g = sp.ke_g();
    let nsk = sp.nsk();
    let mut keys: Vec<(String, Vec<u8>)> = g.special_scalars();
    let mut seeds: Vec<(String, Vec<u8>)> = vec![("00..".into(), vec![0u8; nsk]), ("ff..".into(), vec![0xffu8; nsk])];
    for i in 0..3 {
        let mut s = vec![0u8; nsk];
        Tape::seeded(seed, &format!("c19/seed/{}", i)).fill_bytes(&mut s);
        seeds.push((format!("tape{}", i), s));
    }
    // seeded derivation == specification
    for (n, s) in &seeds {
        cx.begin_case(json!({"check": "derive_auth_keypair", "seed": n, "seed_bytes": hex::encode(s)}));
        cx.state(&("derive", s));
        cx.edges += 1;
        cx.path();
        let (msk, mpk) = sp.derive_dh_keypair(s);
        match api.ke_derive(s) {
            Ok(sk) => {
                if sk != msk {
                    cx.violate("derive/differs-from-specification", format!("derive_auth_keypair(seed {}) differs from DeriveDiffieHellmanKeyPair of the specification", n));
                } else {
                    cx.outcome("derivation-matches-specification");
                }
                if !g.scalar_valid(&sk) {
                    cx.violate("derive/invalid-key", "derived private key is zero or not canonical".into());
                }
                match api.ke_keypair_pk(&sk) {
                    Ok(pk) if pk == mpk => {}
                    other => cx.violate("derive/public-key", format!("public key of the derived key differs from the reference: {:?}", other.err())),
                }
                keys.push((format!("derived({})", n), sk));
            }
            Err(e) => cx.violate("derive/error", format!("{:?}", e)),
        }
    }
    for i in 0..2 {
        match api.ke_random_sk(&mut Tape::seeded(seed, &format!("c19/rand/{}", i))) {
            Ok(sk) => {
                if !g.scalar_valid(&sk) {
                    cx.violate("random_sk/invalid", "random_sk returns a zero or non-canonical key".into());
                }
                keys.push((format!("random{}", i), sk));
            }
            Err(e) => cx.violate("random_sk/error", format!("{:?}", e)),
        }
    }
    // per key: public key three ways, round trips
    let mut pks: Vec<Vec<u8>> = vec![];
    for (n, sk) in &keys {
        cx.begin_case(json!({"check": "public key / round trips", "key": n, "sk": hex::encode(sk)}));
        cx.state(&("key", sk));
        cx.edges += 4;
        cx.path();
        let mpk = sp.ke.pubkey(sk);
        let a = api.ke_public_key(sk);
        let b = api.ke_keypair_pk(sk);
        if a.as_ref().ok() != Some(&mpk) || b.as_ref().ok() != Some(&mpk) {
            cx.violate("public-key/inconsistent", format!("public key of {} differs between KeGroup::public_key, KeyPair::from_private_key_slice and the reference arithmetic ({:?} / {:?})", n, a.as_ref().err(), b.as_ref().err()));
        } else {
            cx.outcome("public-key-consistent");
        }
        match api.ke_sk_recode(sk) {
            Ok(r) if &r == sk => {}
            other => cx.violate("roundtrip/private-key", format!("private key {} does not round-trip: {:?}", n, other.err())),
        }
        match api.ke_pk_recode(&mpk) {
            Ok(r) if r == mpk => {}
            other => cx.violate("roundtrip/public-key", format!("public key of {} does not round-trip: {:?}", n, other.err())),
        }
        pks.push(mpk);
    }
    // DH symmetry over all ordered pairs
    for i in 0..keys.len() {
        for j in 0..keys.len() {
            cx.begin_case(json!({"check": "DH symmetry", "a": keys[i].0, "b": keys[j].0}));
            cx.state(&("dh", i, j));
            cx.edges += 2;
            cx.path();
            let x = api.ke_dh(&keys[i].1, &pks[j]);
            let y = api.ke_dh(&keys[j].1, &pks[i]);
            let m = sp.ke.dh(&keys[i].1, &pks[j]);
            match (&x, &y) {
                (Ok(x), Ok(y)) if x == y && *x == m => {
                    if x.iter().all(|b| *b == 0) {
                        cx.violate("dh/all-zero", "Diffie-Hellman between two valid keys is all-zero".into());
                    }
                    cx.outcome("dh-symmetric");
                }
                _ => cx.violate("dh/asymmetric", format!("DH({}, pk {}) and DH({}, pk {}) differ or differ from the reference ({:?}/{:?})", keys[i].0, keys[j].0, keys[j].0, keys[i].0, x.as_ref().err(), y.as_ref().err())),
            }
        }
    }
    // peers with SMALL coordinates (leading or trailing zero bytes in the encoding): with the key 1 the shared secret is the
    // peer itself, so outputs with long runs of zero bytes occur (the classic place for a stripped-leading-zero slip)
    if g != crate::groups::G::X25519 {
        for (pi, peer) in g.small_valid_elems(4).into_iter().enumerate() {
            for (kn, k) in keys.iter().take(6) {
                cx.begin_case(json!({"check": "DH with a small-coordinate peer", "key": kn, "peer": hex::encode(&peer)}));
                if !cx.state(&("dh-small", pi, kn)) {
                    continue;
                }
                cx.edges += 1;
                cx.path();
                let m = sp.ke.dh(k, &peer);
                match api.ke_dh(k, &peer) {
                    Ok(x) if x == m => cx.outcome("dh-equals-reference"),
                    other => cx.violate("dh/small-peer", format!("DH({}, small-coordinate peer) differs from the reference: {:?}", kn, other.map(hex::encode))),
                }
            }
        }
    }
    // Curve25519 only: its private-key type is plain bytes, so the public KeGroup functions can be called with RAW keys that
    // the strict decoder would refuse (1, order-1, all-ones, the unclamped RFC 7748 keys): RFC 7748 clamps inside X25519,
    // so public_key(k) = X25519(k, 9) and Diffie-Hellman is symmetric for those as well
    if g == crate::groups::G::X25519 {
        let mut raws: Vec<(String, Vec<u8>)> = vec![("1".into(), crate::groups::small_int(1, 32, false)), ("all-ones".into(), vec![0xffu8; 32])];
        raws.push(("order-1".into(), hex::decode("ecd3f55c1a631258d69cf7a2def9de1400000000000000000000000000000010").unwrap()));
        raws.push(("rfc7748-alice".into(), hex::decode("77076d0a7318a57d3c16c17251b26645df4c2f87ebc0992ab177fba51db92c2a").unwrap()));
        raws.push(("rfc7748-bob".into(), hex::decode("5dab087e624a8a4b79e17f8b83800ee66f3bb1292618b6fd1c2f8b27ff88e0eb").unwrap()));
        let mut rpks = vec![];
        for (n, k) in &raws {
            cx.begin_case(json!({"check": "public_key on a raw (unclamped) key", "key": n}));
            cx.state(&("rawpk", n));
            cx.edges += 1;
            cx.path();
            let m = sp.ke.pubkey(k);
            match api.ke_raw_pk(k) {
                Ok(pk) if pk == m => cx.outcome("raw-public-key-is-x25519-base"),
                other => cx.violate("raw/public-key", format!("public_key({}) is not X25519(k, 9): {:?}", n, other.map(hex::encode))),
            }
            rpks.push(m);
        }
        if rpks[3] != hex::decode("8520f0098930a754748b7ddcb43ef75a0dbf3a0d26381af4eba4a98eaa9b4e6a").unwrap() {
            cx.violate_case("machinery/rfc7748", "reference model does not reproduce the RFC 7748 6.1 public key".into(), json!({}));
        }
        for i in 0..raws.len() {
            for j in 0..raws.len() {
                cx.begin_case(json!({"check": "DH symmetry on raw keys", "a": raws[i].0, "b": raws[j].0}));
                cx.state(&("rawdh", i, j));
                cx.edges += 2;
                cx.path();
                let x = api.ke_raw_dh(&raws[i].1, &rpks[j]);
                let y = api.ke_raw_dh(&raws[j].1, &rpks[i]);
                let m = sp.ke.dh(&raws[i].1, &rpks[j]);
                match (&x, &y) {
                    (Ok(x), Ok(y)) if x == y && *x == m => cx.outcome("dh-symmetric"),
                    _ => cx.violate("raw/dh-asymmetric", format!("DH on raw keys {} / {} is not symmetric or differs from X25519", raws[i].0, raws[j].0)),
                }
            }
        }
    }
    // Curve25519 only: every 32-byte string is a u-coordinate, so Diffie-Hellman must equal X25519 (RFC 7748) for
    // ARBITRARY peer values - points on the twist, points with a small-order component - not only for honest public keys
    if g == crate::groups::G::X25519 {
        let mut us: Vec<(String, Vec<u8>)> = (2u64..=12).map(|u| (format!("u={}", u), crate::groups::small_int(u, 32, false))).collect();
        us.push(("rfc7748-5.2-vector1-u".into(), hex::decode("e6db6867583030db3594c1a424b15f7c726624ec26b3353b10a903a6d0ab1c4c").unwrap()));
        us.push(("rfc7748-5.2-vector2-u".into(), hex::decode("e5210f12786811d3f4b7959d0538ae2c31dbe7106fc03c3efc4cd549c715a493").unwrap()));
        // canonical values just below p = 2^255 - 19 in shape (top byte 0x7f, low byte >= 0xed) but not in value
        for (i, lo) in [0xedu8, 0xee, 0xf3, 0xff].iter().enumerate() {
            let mut u = vec![0x11u8 * (i as u8 + 1); 32];
            u[0] = *lo;
            u[31] = 0x7f;
            us.push((format!("near-p-shape-{}", i), u));
        }
        for i in 0..12 {
            let mut u = vec![0u8; 32];
            Tape::seeded(seed, &format!("c19/u/{}", i)).fill_bytes(&mut u);
            us.push((format!("tape-u{}", i), u));
        }
        let mut ks = keys.clone();
        ks.push(("rfc7748-5.2-vector1-k(clamped)".into(), {
            let mut k = hex::decode("a546e36bf0527c9d3b16154b82465edd62144c0ac1fc5a18506a2244ba449ac4").unwrap();
            k[0] &= 248;
            k[31] &= 127;
            k[31] |= 64;
            k
        }));
        for (un, u) in &us {
            if !g.elem_valid(u) {
                continue;
            }
            for (kn, k) in &ks {
                cx.begin_case(json!({"check": "X25519 with an arbitrary peer u-coordinate", "key": kn, "u": un, "u_bytes": hex::encode(u)}));
                cx.state(&("x25519", k, u));
                cx.edges += 1;
                cx.path();
                let want = sp.ke.dh(k, u);
                if kn == &ks[0].0 {
                    // a valid (not small-order, canonical or not) peer value must be accepted by the public-key decoder
                    if u[31] & 0x80 == 0 {
                        if let Err(e) = api.ke_pk_recode(u) {
                            cx.violate("public-key/valid-value-refused", format!("the public-key decoder refuses the valid peer value {}: {:?}", un, e));
                        }
                    }
                }
                match api.ke_dh(k, u) {
                    Ok(got) if got == want => cx.outcome("x25519-matches-rfc7748"),
                    Ok(_) => cx.violate("dh/not-x25519", format!("Diffie-Hellman of key {} with peer value {} differs from X25519 (RFC 7748)", kn, un)),
                    Err(e) => cx.violate("dh/rejects-valid-u", format!("a peer value that is not of small order is refused: {:?}", e)),
                }
            }
        }
    }
    cx.sample(json!({"suite": api.name(), "ke_group": g.name(), "keys": keys.iter().map(|k| k.0.clone()).collect::<Vec<_>>(), "seeds": seeds.iter().map(|k| k.0.clone()).collect::<Vec<_>>()}));
}

pub fn run(tier: Tier, seed: u64) -> i32 {
    let t0 = Instant::now();
    crate::vectors::require();
    let items = all_apis();
    let tot = fw::run_items("C19", &items, |a| a.name().to_string(), |api, cx| explore(api, seed, cx));
    let rep = Report {
        property: "C19",
        tier,
        seed,
        rule: "complete enumeration: 5 seeds x (5 KE groups x 4 OPRF suites) for seeded derivation against the reference DeriveDiffieHellmanKeyPair; a key alphabet of special, derived and sampled keys per group with all ordered pairs for DH symmetry, three-way public-key consistency and encode/decode round trips".into(),
        bounds: json!({"suites": 20, "seeds": 5, "keys_per_group": "4 special (2 for Curve25519) + 5 derived + 2 sampled", "pairs": "all ordered pairs", "quick_equals_thorough": true}),
        assumptions: vec!["reference arithmetic = p256/p384/p521/curve25519-dalek used directly by the reference model".into()],
        exhaustive: true,
        crosscheck: json!(null),
    };
    fw::finish(rep, tot, t0)
}
