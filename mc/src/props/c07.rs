//! C07 - sessions are fresh and isolated under adversarial message routing.
//! (a) routing-complete product on the population the property states (5 records, 4 client sessions, every
//!     (request, record, credential id) server session started twice), one shared tape, several generation orders;
//! (b) call-order LTS: all causally valid interleavings of the generating calls of a smaller population on ONE
//!     shared RNG (no two orders merge) and again with per-party RNGs (independent calls commute and merge); the
//!     routing product is evaluated in every maximal state.
//! Ghost oracle: a client accepts iff the response was produced for its own request from a record whose password
//! equals the one it uses, under the credential id of that record's registration; a server session accepts iff the
//! finalization was produced by the client run that accepted that very session's response; keys agree inside a
//! completed session and are pairwise distinct across completed sessions.
use super::common::*;
use crate::adapter::Blob;
use crate::api::Api;
use crate::explore::{self, Lts};
use crate::fw::{self, h128, Cx, Report, Tier, Totals};
use crate::tape::Tape;
use serde_json::{json, Value};
use std::time::Instant;

/// credential identifiers: long and differing only in the last byte, so that a (record, credential id) mix-up is a
/// near miss (a derivation that shortens or hashes-down the identifier would confuse them)
static CRED_A: [u8; 300] = {
    let mut a = [b'c'; 300];
    a[299] = b'A';
    a
};
static CRED_B: [u8; 300] = {
    let mut a = [b'c'; 300];
    a[299] = b'B';
    a
};
static CREDS: [&[u8]; 2] = [&CRED_A, &CRED_B];
/// registrations: (name, password, credential id index)
const USERS: [(&str, &[u8], usize); 4] = [("A", b"pwA", 0), ("B", b"pwB", 1), ("C(shares A's password)", b"pwA", 1), ("A(re-registered)", b"pwA", 0)];
/// user names used as explicit client identities in the "with identities" variant of the population
const USER_NAMES: [&[u8]; 4] = [b"A", b"B", b"C", b"A"];
const CLIENT_NAMES: [&[u8]; 4] = [b"A", b"B", b"A", b"A"];
/// client sessions: (name, password)
const CLIENTS: [(&str, &[u8]); 4] = [("A", b"pwA"), ("B", b"pwB"), ("A-again", b"pwA"), ("A-wrong-password", b"pwX")];

#[derive(Clone)]
struct Srv {
    q: usize,
    r: Option<usize>,
    c: usize,
    ke2: Vec<u8>,
    st: Vec<u8>,
}

/// evaluate the complete routing product over the given sessions; `users`/`clients` index the constant tables
fn routing(api: &Api, files: &[Option<(usize, Vec<u8>)>], clients: &[(usize, Vec<u8>, Vec<u8>)], servers: &[Srv], cx: &mut Cx, tag: &str, mode: Mode, with_ids: bool) {
    let mut fins: Vec<(usize, usize, Vec<u8>, Vec<u8>)> = vec![];
    for (ci, (cidx, _ke1, cst)) in clients.iter().enumerate() {
        let cpw = CLIENTS[*cidx].1;
        for (sj, s) in servers.iter().enumerate() {
            let expect = s.q == ci
                && match s.r.and_then(|r| files[r].as_ref()) {
                    Some((u, _)) => USERS[*u].1 == cpw && USERS[*u].2 == s.c && (!with_ids || USER_NAMES[*u] == CLIENT_NAMES[*cidx]),
                    None => false,
                };
            let cid_name: Option<&[u8]> = if with_ids { Some(CLIENT_NAMES[*cidx]) } else { None };
            cx.edges += 1;
            let case = || json!({"routing": tag, "deliver": "response", "client": CLIENTS[*cidx].0, "server_session": {"request_of_client": s.q, "record": s.r.map(|r| files[r].as_ref().map(|f| USERS[f.0].0)), "cred": s.c}});
            match (api.login_finish(&Blob::n(cst), cpw, &Blob::n(&s.ke2), None, cid_name, None, None), expect) {
                (Ok((fin, sk, _, _)), true) => {
                    cx.outcome("client-accepts-matched");
                    fins.push((ci, sj, fin, sk));
                }
                (Err(_), false) => cx.outcome("client-rejects-unmatched"),
                (Ok(_), false) => {
                    cx.outcome("CLIENT-ACCEPTS-UNMATCHED");
                    if mode == Mode::Own {
                        cx.violate_case("client-accepts-unmatched", format!("client {} completes on a response outside its matched conversation", CLIENTS[*cidx].0), case());
                    }
                }
                (Err(e), true) => {
                    cx.outcome("CLIENT-REJECTS-MATCHED");
                    honest_fail_case(cx, mode, "client-rejects-matched", format!("client {} rejects the response of its matched conversation: {:?}", CLIENTS[*cidx].0, e), case());
                }
            }
        }
    }
    let zero = vec![0u8; api.spec.nh()];
    for (sj, s) in servers.iter().enumerate() {
        cx.edges += 1;
        if mode == Mode::Own && api.slogin_finish(&Blob::n(&s.st), &Blob::n(&zero)).is_ok() {
            cx.violate_case("server-accepts-zeros", "server session completes on an all-zero finalization".into(), json!({"routing": tag, "server_session": sj}));
        }
        for (ci, sk_, fin, sk) in &fins {
            cx.edges += 1;
            let case = || json!({"routing": tag, "deliver": "finalization", "from_client": CLIENTS[clients[*ci].0].0, "made_for_server_session": sk_, "delivered_to_server_session": sj});
            match (api.slogin_finish(&Blob::n(&s.st), &Blob::n(fin)), *sk_ == sj) {
                (Ok(k), true) => {
                    cx.outcome("server-accepts-matched");
                    if &k != sk {
                        cx.violate_case("key-mismatch", "client and server session keys differ inside a completed session".into(), case());
                    }
                }
                (Err(_), false) => cx.outcome("server-rejects-unmatched"),
                (Ok(_), false) => {
                    cx.outcome("SERVER-ACCEPTS-UNMATCHED");
                    if mode == Mode::Own {
                        cx.violate_case("server-accepts-unmatched", "a server session completes on a finalization made for another server session".into(), case());
                    }
                }
                (Err(e), true) => {
                    cx.outcome("SERVER-REJECTS-MATCHED");
                    honest_fail_case(cx, mode, "server-rejects-matched", format!("server rejects the finalization of its matched conversation: {:?}", e), case());
                }
            }
        }
    }
    for i in 0..fins.len() {
        for j in 0..i {
            if mode == Mode::Own && fins[i].3 == fins[j].3 {
                cx.violate_case("duplicate-session-key", "two distinct completed sessions have the same session key".into(), json!({"routing": tag, "sessions": [fins[i].1, fins[j].1]}));
            }
        }
    }
    cx.add("completed_sessions", fins.len() as u64);
}

/// (a) the stated population, generated in order variant `ord` on one shared tape
pub fn part_a(api: &Api, ord: usize, with_ids: bool, seed: u64, cx: &mut Cx, mode: Mode) {
    let mut t = Tape::seeded(seed, &format!("c07a/{}", ord));
    let r = (|| -> Result<(), String> {
        let setup = api.setup(&mut t).map_err(|e| format!("setup {:?}", e))?;
        let mut files: Vec<Option<(usize, Vec<u8>)>> = vec![None];
        let mut uorder: Vec<usize> = (0..USERS.len()).collect();
        if ord == 1 {
            uorder.reverse();
        }
        let mut regs = vec![None; USERS.len()];
        for u in uorder {
            let reg = crate::flow::register(api, &mut t, &setup, USERS[u].1, CREDS[USERS[u].2], if with_ids { Some(USER_NAMES[u]) } else { None }, None, None).map_err(|e| format!("register {} {:?}", e.step, e.e))?;
            regs[u] = Some(reg.file);
        }
        for (u, f) in regs.into_iter().enumerate() {
            files.push(Some((u, f.unwrap())));
        }
        // clients may start before, between or after the server sessions depending on the order variant
        let mut clients: Vec<(usize, Vec<u8>, Vec<u8>)> = vec![];
        for (ci, (_, pw)) in CLIENTS.iter().enumerate() {
            let (ke1, st) = api.login_start(&mut t, pw).map_err(|e| format!("login_start {:?}", e))?;
            clients.push((ci, ke1, st));
        }
        let mut plan: Vec<(usize, usize, usize, usize)> = vec![];
        for q in 0..clients.len() {
            for r in 0..files.len() {
                for c in 0..2 {
                    for dup in 0..2 {
                        plan.push((q, r, c, dup));
                    }
                }
            }
        }
        match ord {
            1 => plan.reverse(),
            2 => plan.sort_by_key(|p| (p.3, p.2, p.1, p.0)),
            3 => {
                let n = plan.len();
                plan.rotate_left(n / 3)
            }
            _ => {}
        }
        let mut servers = vec![];
        for (q, r, c, _dup) in plan {
            let fb = files[r].as_ref().map(|f| Blob::n(&f.1));
            // the server states the identity of the user whose record it serves (no record: the requesting client's)
            let sid: Option<&[u8]> = if !with_ids { None } else if r == 0 { Some(CLIENT_NAMES[q]) } else { Some(USER_NAMES[r - 1]) };
            let (ke2, st) = match api.slogin_start(&mut t, &Blob::n(&setup), fb.as_ref(), &Blob::n(&clients[q].1), CREDS[c], None, sid, None) {
                Ok(x) => x,
                // on behalf of C01 (honest behaviour) a login WITHOUT a record that cannot be opened is not an honest
                // registration+login: that session is simply absent (C08 / C12 judge it)
                Err(_) if mode == Mode::Honest && r == 0 => continue,
                Err(e) => return Err(format!("slogin_start {:?}", e)),
            };
            servers.push(Srv { q, r: if r == 0 { None } else { Some(r) }, c, ke2, st });
        }
        // server sessions opened while the server's random generator FAILS (environment fault): if the library still
        // opens them, they take part in the routing product like any other session (two such sessions on one request
        // must still be two distinct sessions)
        if mode == Mode::Own {
            for q in [0usize, 2] {
                for _dup in 0..2 {
                    let mut ft = Tape::seeded(seed, &format!("c07a/failing/{}", ord));
                    ft.fail_at = Some(0);
                    let fb = files[1].as_ref().map(|f| Blob::n(&f.1));
                    if let Ok((ke2, st)) = api.slogin_start(&mut ft, &Blob::n(&setup), fb.as_ref(), &Blob::n(&clients[q].1), CREDS[0], None, if with_ids { Some(USER_NAMES[0]) } else { None }, None) {
                        cx.outcome("session-opened-although-generator-failed");
                        servers.push(Srv { q, r: Some(1), c: 0, ke2, st });
                    } else {
                        cx.outcome("session-refused-when-generator-fails");
                    }
                }
            }
        }
        cx.context_done();
        cx.state(&("a", ord, with_ids));
        routing(api, &files, &clients, &servers, cx, &format!("population-order-{}{}", ord, if with_ids { "-with-identities" } else { "" }), mode, with_ids);
        cx.path();
        cx.sample(json!({"suite": api.name(), "part": "a", "order": ord, "records": 5, "client_sessions": 4, "server_sessions": servers.len()}));
        Ok(())
    })();
    if let Err(e) = r {
        honest_fail_case(cx, mode, "generation", e, json!({"part": "a"}));
    }
}

// ---- (b) call-order LTS ----
#[derive(Clone, Debug, PartialEq, Eq, Hash)]
enum Op {
    Reg(usize),
    CStart(usize),
    SStart { q: usize, r: Option<usize>, c: usize, dup: usize },
}
#[derive(Clone)]
struct St {
    /// tape positions: [shared] or [client, server]
    pos: Vec<usize>,
    done: Vec<Op>,
    setup: Vec<u8>,
    files: Vec<Option<(usize, Vec<u8>)>>,
    clients: Vec<Option<(usize, Vec<u8>, Vec<u8>)>>,
    servers: Vec<(Op, Srv)>,
}
struct Calls {
    api: Api,
    ops: Vec<Op>,
    shared: bool,
    seed: u64,
}
impl Calls {
    fn tape(&self, party: usize, pos: usize) -> Tape {
        let mut t = Tape::seeded(self.seed, if self.shared { "c07b/shared" } else if party == 0 { "c07b/client" } else { "c07b/server" });
        t.pos = pos;
        t
    }
}
impl Lts for Calls {
    type S = St;
    type A = Op;
    fn init(&self, cx: &mut Cx) -> Vec<St> {
        let mut t = self.tape(1, 0);
        match self.api.setup(&mut t) {
            Ok(setup) => {
                let pos = if self.shared { vec![t.pos] } else { vec![0, t.pos] };
                vec![St { pos, done: vec![], setup, files: vec![None; USERS.len() + 1], clients: vec![None; CLIENTS.len()], servers: vec![] }]
            }
            Err(e) => {
                cx.violate_case("honest-step/error", format!("setup {:?}", e), json!({}));
                vec![]
            }
        }
    }
    fn key(&self, s: &St) -> u128 {
        // canonical: produced objects as sorted sets + tape positions; the order of calls is history, not state
        let mut srv: Vec<(&Op, &Vec<u8>, &Vec<u8>)> = s.servers.iter().map(|(o, v)| (o, &v.ke2, &v.st)).collect();
        srv.sort_by_key(|x| h128(&(x.0, x.1)));
        h128(&(&s.pos, &s.files, &s.clients, srv))
    }
    fn actions(&self, s: &St) -> Vec<Op> {
        self.ops
            .iter()
            .filter(|op| !s.done.contains(op))
            .filter(|op| match op {
                Op::Reg(_) | Op::CStart(_) => true,
                Op::SStart { q, r, .. } => s.clients[*q].is_some() && r.map_or(true, |r| s.files[r].is_some()),
            })
            .cloned()
            .collect()
    }
    fn step(&self, s: &St, op: &Op, cx: &mut Cx) -> Option<St> {
        let mut n = s.clone();
        let (ci, si) = if self.shared { (0, 0) } else { (0, 1) };
        let r: Result<(), String> = (|| {
            match op {
                Op::Reg(u) => {
                    // a registration uses the client's RNG (both client steps); the server step is deterministic
                    let mut t = self.tape(0, s.pos[ci]);
                    let reg = crate::flow::register(&self.api, &mut t, &s.setup, USERS[*u].1, CREDS[USERS[*u].2], None, None, None).map_err(|e| format!("{} {:?}", e.step, e.e))?;
                    n.files[*u + 1] = Some((*u, reg.file));
                    n.pos[ci] = t.pos;
                }
                Op::CStart(c) => {
                    let mut t = self.tape(0, s.pos[ci]);
                    let (ke1, st) = self.api.login_start(&mut t, CLIENTS[*c].1).map_err(|e| format!("login_start {:?}", e))?;
                    n.clients[*c] = Some((*c, ke1, st));
                    n.pos[ci] = t.pos;
                }
                Op::SStart { q, r, c, .. } => {
                    let mut t = self.tape(1, s.pos[si]);
                    let fb = r.and_then(|r| s.files[r].as_ref()).map(|f| Blob::n(&f.1));
                    let ke1 = &s.clients[*q].as_ref().unwrap().1;
                    let (ke2, st) = self.api.slogin_start(&mut t, &Blob::n(&s.setup), fb.as_ref(), &Blob::n(ke1), CREDS[*c], None, None, None).map_err(|e| format!("slogin_start {:?}", e))?;
                    n.servers.push((op.clone(), Srv { q: *q, r: *r, c: *c, ke2, st }));
                    n.pos[si] = t.pos;
                }
            }
            Ok(())
        })();
        if let Err(e) = r {
            cx.violate("honest-step/error", e);
            return None;
        }
        n.done.push(op.clone());
        Some(n)
    }
    fn check(&self, s: &St, cx: &mut Cx) {
        // no two produced messages may coincide, in any state
        let mut msgs: Vec<&Vec<u8>> = s.clients.iter().flatten().map(|c| &c.1).collect();
        msgs.extend(s.servers.iter().map(|x| &x.1.ke2));
        for i in 0..msgs.len() {
            for j in 0..i {
                if msgs[i] == msgs[j] {
                    cx.violate("repeated-message", "two generating calls produced byte-identical messages".into());
                }
            }
        }
        if s.done.len() == self.ops.len() {
            // maximal state: full routing product.  Client indices in `routing` are positions in the client list.
            let clients: Vec<(usize, Vec<u8>, Vec<u8>)> = s.clients.iter().flatten().cloned().collect();
            let pos_of = |q: usize| clients.iter().position(|c| c.0 == q).unwrap();
            let servers: Vec<Srv> = s.servers.iter().map(|(_, v)| Srv { q: pos_of(v.q), ..v.clone() }).collect();
            routing(&self.api, &s.files, &clients, &servers, cx, "maximal-state", Mode::Own, false);
        }
    }
    fn describe(&self, a: &Op) -> Value {
        match a {
            Op::Reg(u) => json!({"register": USERS[*u].0}),
            Op::CStart(c) => json!({"client_start": CLIENTS[*c].0}),
            Op::SStart { q, r, c, dup } => json!({"server_start": {"request_of": CLIENTS[*q].0, "record": r.map(|r| USERS[r - 1].0), "cred": c, "dup": dup}}),
        }
    }
}

fn ops_for(n: usize) -> Vec<Op> {
    let mut ops = vec![
        Op::Reg(0),
        Op::CStart(0),
        Op::SStart { q: 0, r: Some(1), c: 0, dup: 0 },
        Op::CStart(3),
        Op::SStart { q: 3, r: Some(1), c: 0, dup: 0 },
        Op::SStart { q: 0, r: Some(1), c: 0, dup: 1 },
        Op::SStart { q: 0, r: None, c: 0, dup: 0 },
        Op::Reg(1),
        Op::SStart { q: 0, r: Some(2), c: 1, dup: 0 },
        Op::SStart { q: 0, r: Some(1), c: 1, dup: 0 },
    ];
    ops.truncate(n);
    ops
}

fn nops(api: &Api, tier: Tier) -> usize {
    let slow = api.name().contains("P521") || api.name().contains("P384");
    match (tier.thorough(), slow) {
        (false, true) => 6,
        (false, false) => 7,
        (true, true) => 8,
        (true, false) => 9,
    }
}

pub fn run(tier: Tier, seed: u64) -> i32 {
    let t0 = Instant::now();
    let mut tot = Totals::default();
    // (a)
    let mut items = vec![];
    for api in all_apis() {
        for ord in 0..if tier.thorough() { 4 } else { 2 } {
            for with_ids in [false, true] {
                items.push((api, ord, with_ids));
            }
        }
    }
    tot.merge(fw::run_items("C07", &items, |(a, _, _)| a.name().to_string(), |(api, ord, wi), cx| part_a(api, *ord, *wi, seed, cx, Mode::Own)));
    // (b)
    let mut items = vec![];
    for api in all_apis() {
        for shared in [true, false] {
            items.push((api, shared));
        }
    }
    let bstats = std::sync::Mutex::new(vec![]);
    tot.merge(fw::run_items("C07", &items, |(a, _)| a.name().to_string(), |(api, shared), cx| {
        let l = Calls { api: *api, ops: ops_for(nops(api, tier)), shared: *shared, seed };
        let st = explore::bfs(&l, cx, 2_000_000);
        bstats.lock().unwrap().push(json!({"suite": api.name(), "rng": if *shared {"shared"} else {"per-party"}, "ops": l.ops.len(), "states": st.states, "edges": st.edges, "max_depth": st.max_depth, "maximal_states": st.terminals}));
        cx.sample(json!({"suite": api.name(), "part": "b", "rng": if *shared {"shared"} else {"per-party"}, "ops": l.ops.iter().map(|o| l.describe(o)).collect::<Vec<_>>()}));
    }));
    // stateright cross-count (thorough): same model, independent engine, on the two fastest suites
    let mut cross = json!(null);
    if tier.thorough() {
        let mut v = vec![];
        for api in all_apis().into_iter().take(2) {
            for shared in [true, false] {
                let l = Calls { api, ops: ops_for(nops(&api, tier)), shared, seed };
                let mut cx = Cx::new("C07", api.name());
                let mine = explore::bfs(&l, &mut cx, 2_000_000);
                let (sr_states, sr_depth) = explore::stateright_count(Calls { api, ops: ops_for(nops(&api, tier)), shared, seed }, 16);
                let agree = sr_states == mine.states && sr_depth == mine.max_depth;
                v.push(json!({"suite": api.name(), "rng": if shared {"shared"} else {"per-party"}, "mine": {"states": mine.states, "depth": mine.max_depth}, "stateright": {"states": sr_states, "depth": sr_depth}, "agree": agree}));
                if !agree {
                    tot.machinery_errors.push(format!("stateright cross-count disagrees for {}: {:?}", api.name(), v.last()));
                }
            }
        }
        cross = json!(v);
    }
    let per_model = bstats.into_inner().unwrap();
    let rep = Report {
        property: "C07",
        tier,
        seed,
        rule: "(a) the population stated in the property (5 records, 4 client sessions, all 40 (request, record, cred) server sessions x 2) is generated on one shared tape in several orders and the COMPLETE routing product (every response to every client, every produced finalization and zeros to every server session) is executed; (b) explicit-state BFS over all causally valid interleavings of the generating calls on a shared RNG and on per-party RNGs, with the routing product as invariant in every maximal state".into(),
        bounds: json!({"suites": 20, "part_a": {"orders": if tier.thorough() {4} else {2}, "server_sessions": 80, "client_finishes": 320}, "part_b": {"generating_ops": "6-7 (quick) / 8-9 (thorough) depending on suite speed", "models": per_model}}),
        assumptions: vec!["finishing consumes a session and results are pure functions of the delivered bytes, so the reachable outcomes are exactly the routing product".into()],
        exhaustive: true,
        crosscheck: cross,
    };
    fw::finish(rep, tot, t0)
}
