//! C11 - invalid group elements and scalars are never accepted.
//! Enumerated: (decoder, element/scalar field, invalid-encoding menu entry, codec in {native, bincode, JSON}),
//! all other fields valid; plus the masked server key inside a credential response (client finish step).
//! Oracle: decoding returns Err (for the masked key: the client's final step returns Err).
use super::common::*;
use crate::adapter::{Blob, Codec, E};
use crate::api::Api;
use crate::fw::{self, Cx, Report, Tier};
use crate::groups::G;
use crate::refmodel::{cat, Kind, ALL_KINDS, FT, NN};
use serde_json::{json, Value};
use std::time::Instant;

fn find_all(h: &[u8], needle: &[u8]) -> Vec<usize> {
    if needle.is_empty() || h.len() < needle.len() {
        return vec![];
    }
    (0..=h.len() - needle.len()).filter(|i| &h[*i..*i + needle.len()] == needle).collect()
}
fn json_arrays<'a>(v: &'a mut Value, old: &[u8], out: &mut Vec<&'a mut Vec<Value>>) {
    match v {
        Value::Array(a) => {
            if a.len() == old.len() && a.iter().zip(old).all(|(x, y)| x.as_u64() == Some(*y as u64)) {
                out.push(a);
            } else {
                for x in a.iter_mut() {
                    json_arrays(x, old, out);
                }
            }
        }
        Value::Object(m) => {
            for x in m.values_mut() {
                json_arrays(x, old, out);
            }
        }
        _ => {}
    }
}

/// replace every occurrence of the byte string `old` inside a JSON value by `new`, however the implementation spells
/// byte strings: an array of numbers (the whole array or a contiguous run inside a longer one) or a hex string (the whole
/// string or a part of it); returns the number of replacements
fn json_replace(v: &mut Value, old: &[u8], new: &[u8]) -> usize {
    match v {
        Value::Array(a) => {
            let nums: Option<Vec<u8>> = a.iter().map(|x| x.as_u64().filter(|n| *n < 256).map(|n| n as u8)).collect();
            if let Some(bytes) = nums {
                let pos = find_all(&bytes, old);
                if !pos.is_empty() {
                    // non-overlapping, from the back
                    let mut n = 0;
                    let mut last = usize::MAX;
                    for p in pos.into_iter().rev() {
                        if p + old.len() <= last {
                            a.splice(p..p + old.len(), new.iter().map(|x| json!(*x)));
                            last = p;
                            n += 1;
                        }
                    }
                    return n;
                }
                return 0;
            }
            a.iter_mut().map(|x| json_replace(x, old, new)).sum()
        }
        Value::Object(m) => m.values_mut().map(|x| json_replace(x, old, new)).sum(),
        Value::String(st) => {
            for (ho, hn) in [(hex::encode(old), hex::encode(new)), (hex::encode_upper(old), hex::encode_upper(new))] {
                let c = st.matches(&ho).count();
                if c > 0 && !ho.is_empty() {
                    *st = st.replace(&ho, &hn);
                    return c;
                }
            }
            0
        }
        _ => 0,
    }
}

/// replace the (unique) occurrence of `old` inside the `codec` form of the honest object by `new`
fn inject(api: &Api, kind: Kind, native: &[u8], range: Option<std::ops::Range<usize>>, old: &[u8], new: &[u8], codec: Codec) -> Result<Blob, String> {
    match codec {
        Codec::Native | Codec::Clone => {
            let r = range.ok_or("field has no native position")?;
            if &native[r.clone()] != old {
                return Err("native locator: honest value not at the layout position".into());
            }
            let mut b = native.to_vec();
            b[r].copy_from_slice(new);
            Ok(Blob::n(&b))
        }
        Codec::Bincode => {
            let b = api.recode(kind, &Blob::n(native), Codec::Bincode).map_err(|e| format!("bincode encode failed: {:?}", e))?;
            let pos = find_all(&b.bytes, old);
            if pos.len() != 1 {
                return Err(format!("bincode locator: honest value found {} times", pos.len()));
            }
            let mut m = b.bytes.clone();
            m[pos[0]..pos[0] + old.len()].copy_from_slice(new);
            Ok(Blob::new(Codec::Bincode, m))
        }
        Codec::Json => {
            let b = api.recode(kind, &Blob::n(native), Codec::Json).map_err(|e| format!("json encode failed: {:?}", e))?;
            let mut v: Value = serde_json::from_slice(&b.bytes).map_err(|e| format!("json parse: {e}"))?;
            let hits = json_replace(&mut v, old, new);
            if hits != 1 {
                return Err(format!("json locator: honest value found {} times", hits));
            }
            Ok(Blob::new(Codec::Json, serde_json::to_vec(&v).unwrap()))
        }
    }
}

struct Target {
    field: String,
    ty: FT,
    range: Option<std::ops::Range<usize>>,
    honest: Vec<u8>,
}

fn explore(api: &Api, seed: u64, cx: &mut Cx) {
    let sp = api.spec;
    let f = match honest(api, seed, "c11", &setting(1)) {
        Ok(f) => f,
        Err(e) => {
            cx.violate_case("machinery/honest-flow", e, json!({}));
            return;
        }
    };
    let arts = artefacts(&f);
    cx.context_done();
    let codecs = [Codec::Native, Codec::Bincode, Codec::Json];
    for kind in ALL_KINDS {
        let native = &arts[&kind];
        let mut targets: Vec<Target> = sp
            .layout(kind)
            .into_iter()
            .filter(|fl| sp.group_of(fl.ty).is_some())
            .map(|fl| Target { field: fl.name.to_string(), ty: fl.ty, range: Some(fl.range()), honest: fl.of(native).to_vec() })
            .collect();
        if kind == Kind::Setup {
            // serde form of a key pair also stores the public key
            for (n, skf) in [("server_pk(serde)", "server_sk"), ("fake_pk(serde)", "fake_sk")] {
                let sk = sp.field(Kind::Setup, skf).of(native).to_vec();
                targets.push(Target { field: n.to_string(), ty: FT::KePk, range: None, honest: sp.ke.pubkey(&sk) });
            }
        }
        for tg in &targets {
            let g: G = sp.group_of(tg.ty).unwrap();
            let is_elem = matches!(tg.ty, FT::OprfElem | FT::KePk);
            let menu = if is_elem { g.invalid_elems(&tg.honest) } else { g.invalid_scalars(&tg.honest) };
            for codec in codecs {
                if tg.range.is_none() && codec == Codec::Native {
                    continue;
                }
                // locator self-check: re-injecting the honest value must give an object that decodes to the honest one
                cx.begin_case(json!({"decoder": kind.name(), "field": tg.field, "codec": format!("{:?}", codec), "entry": "honest (locator self-check)"}));
                match inject(api, kind, native, tg.range.clone(), &tg.honest, &tg.honest, codec).and_then(|b| api.recode(kind, &b, Codec::Native).map_err(|e| format!("honest object rejected through {:?}: {:?}", codec, e))) {
                    Ok(b) if &b.bytes == native => cx.outcome("locator-ok"),
                    Ok(_) => {
                        cx.violate(&format!("machinery/locator/{}/{}/{:?}", kind.name(), tg.field, codec), "honest re-injection does not reproduce the honest object".into());
                        continue;
                    }
                    Err(e) => {
                        cx.violate(&format!("machinery/locator/{}/{}/{:?}", kind.name(), tg.field, codec), e);
                        continue;
                    }
                }
                for (name, bad) in &menu {
                    // ground truth: the entry really is invalid
                    let valid = if is_elem { g.elem_valid(bad) } else { g.scalar_valid(bad) };
                    if valid || bad.len() != tg.honest.len() {
                        cx.violate(&format!("machinery/menu/{}/{}", g.name(), name), format!("menu entry {} for {} is not invalid by ground truth", name, g.name()));
                        continue;
                    }
                    cx.begin_case(json!({"decoder": kind.name(), "field": tg.field, "group": g.name(), "entry": name, "bytes": hex::encode(bad), "codec": format!("{:?}", codec)}));
                    let blob = match inject(api, kind, native, tg.range.clone(), &tg.honest, bad, codec) {
                        Ok(b) => b,
                        Err(e) => {
                            cx.violate(&format!("machinery/locator/{}/{}/{:?}", kind.name(), tg.field, codec), e);
                            continue;
                        }
                    };
                    cx.state(&(kind, &blob));
                    cx.edges += 1;
                    cx.path();
                    match api.recode(kind, &blob, Codec::Native) {
                        Err(E::Panic(m)) => {
                            cx.outcome("panicked");
                            cx.violate(&format!("{}/{}/{}/{}/{:?}/panic", kind.name(), tg.field, name, g.name(), codec), format!("decoding panicked: {}", m));
                        }
                        Err(_) => cx.outcome("rejected"),
                        Ok(_) => {
                            cx.outcome("ACCEPTED-INVALID");
                            cx.violate(
                                &format!("{}/{}/{}/{}/{:?}", kind.name(), tg.field, name, g.name(), codec),
                                format!("{} accepts an invalid {} ({}: {}) in field {} through the {:?} decoder", kind.name(), if is_elem { "group element" } else { "scalar" }, g.name(), name, tg.field, codec),
                            );
                        }
                    }
                }
            }
        }
    }
    // bare key wrappers: PublicKey / PrivateKey, native and serde
    let g = sp.ke_g();
    let hpk = f.spk.clone();
    let hsk = sp.field(Kind::Setup, "server_sk").of(&f.setup).to_vec();
    for (what, honest_v, menu, is_pk) in [("PublicKey", &hpk, g.invalid_elems(&hpk), true), ("PrivateKey", &hsk, g.invalid_scalars(&hsk), false)] {
        for codec in codecs {
            // the serde form is taken from the implementation (its layout is not assumed): the honest key's bytes are
            // located inside it and replaced
            let honest_form = match api.ke_key_encode(is_pk, honest_v, codec) {
                Ok(b) => b,
                Err(e) => {
                    cx.violate(&format!("machinery/locator/{}/{:?}", what, codec), format!("cannot encode the honest key: {:?}", e));
                    continue;
                }
            };
            let wrap = |b: &[u8]| -> Blob {
                match codec {
                    Codec::Native | Codec::Clone => Blob::n(b),
                    Codec::Bincode => {
                        let pos = find_all(&honest_form.bytes, honest_v);
                        if pos.len() == 1 && b.len() == honest_v.len() {
                            let mut m = honest_form.bytes.clone();
                            m[pos[0]..pos[0] + b.len()].copy_from_slice(b);
                            Blob::new(codec, m)
                        } else {
                            Blob::new(codec, b.to_vec())
                        }
                    }
                    Codec::Json => {
                        let arr = |b: &[u8]| b.iter().map(|x| json!(*x)).collect::<Vec<Value>>();
                        let mut v: Value = serde_json::from_slice(&honest_form.bytes).unwrap_or(Value::Null);
                        if json_replace(&mut v, honest_v, b) == 1 {
                            Blob::new(codec, serde_json::to_vec(&v).unwrap())
                        } else {
                            Blob::new(codec, serde_json::to_vec(&arr(b)).unwrap())
                        }
                    }
                }
            };
            let dec = |b: &Blob| if is_pk { api.ke_pk_serde(b) } else { api.ke_sk_serde(b) };
            cx.begin_case(json!({"decoder": what, "codec": format!("{:?}", codec), "entry": "honest (self-check)"}));
            match dec(&wrap(honest_v)) {
                Ok(b) if &b == honest_v => cx.outcome("locator-ok"),
                other => {
                    cx.violate(&format!("machinery/locator/{}/{:?}", what, codec), format!("honest key not accepted: {:?}", other.err()));
                    continue;
                }
            }
            for (name, bad) in &menu {
                cx.begin_case(json!({"decoder": what, "group": g.name(), "entry": name, "bytes": hex::encode(bad), "codec": format!("{:?}", codec)}));
                cx.state(&(what, codec, bad));
                cx.edges += 1;
                cx.path();
                match dec(&wrap(bad)) {
                    Err(_) => cx.outcome("rejected"),
                    Ok(_) => {
                        cx.outcome("ACCEPTED-INVALID");
                        cx.violate(&format!("{}/{}/{}/{:?}", what, name, g.name(), codec), format!("{} accepts an invalid encoding ({}: {}) through the {:?} decoder", what, g.name(), name, codec));
                    }
                }
            }
        }
    }
    // the masked server public key inside a credential response: reaches the client only after unmasking
    let id = |x: &[u8]| x.to_vec();
    let p = setting(1);
    let blind = &f.login.clogin[..sp.nok()];
    let evaluated = sp.field(Kind::CredResp, "evaluated").of(&f.login.ke2);
    let (rpwd, _) = sp.randomized_pwd(&p.pw, blind, evaluated, &id);
    let mk = sp.masking_key_of(&rpwd);
    let (spk_clear, env_clear) = sp.unmask(&mk, &f.login.ke2);
    if spk_clear != f.spk {
        cx.violate_case("machinery/unmask", "reference model cannot unmask the honest response".into(), json!({}));
        return;
    }
    let mfield = sp.field(Kind::CredResp, "masked_response");
    let mn = sp.field(Kind::CredResp, "masking_nonce").of(&f.login.ke2).to_vec();
    for (name, bad) in g.invalid_elems(&f.spk) {
        if g.elem_valid(&bad) {
            continue;
        }
        let masked = sp.masked_response(&mk, &mn, &bad, &env_clear);
        let mut ke2 = f.login.ke2.clone();
        ke2[mfield.range()].copy_from_slice(&masked);
        cx.begin_case(json!({"decoder": "CredentialResponse(masked server key)", "group": g.name(), "entry": name, "bytes": hex::encode(&bad)}));
        cx.state(&("masked", &ke2));
        cx.edges += 1;
        cx.path();
        match api.login_finish(&Blob::n(&f.login.clogin), &p.pw, &Blob::n(&ke2), crate::flow::o(&p.ctx), crate::flow::o(&p.idu), crate::flow::o(&p.ids), None) {
            Err(_) => cx.outcome("rejected"),
            Ok(_) => {
                cx.outcome("ACCEPTED-INVALID");
                cx.violate(&format!("CredentialResponse/masked_server_pk/{}/{}", name, g.name()), format!("client login finish accepts a response whose masked server key is invalid ({})", name));
            }
        }
    }
    let _ = (cat(&[]), NN);
    cx.sample(json!({"suite": api.name(), "example": {"decoder": "CredentialRequest", "field": "client_epk", "entry": g.invalid_elems(&f.spk)[0].0, "codecs": ["Native", "Bincode", "Json"]}}));
}

pub fn run(tier: Tier, seed: u64) -> i32 {
    let t0 = Instant::now();
    let items = all_apis();
    let tot = fw::run_items("C11", &items, |a| a.name().to_string(), |api, cx| explore(api, seed, cx));
    let rep = Report {
        property: "C11",
        tier,
        seed,
        rule: "complete enumeration of (decoder, element/scalar field, invalid-encoding menu entry, codec) with all other fields honest; plus the masked server key of a credential response; a state is a distinct injected object; oracle: decode (or client finish) returns Err".into(),
        bounds: json!({"suites": 20, "codecs": ["native", "bincode", "json"], "menus": "identity; off-curve x (02/03/05); x=p, p+1, ff..ff, valid x+p; bad tags; ristretto non-canonical/negative/non-square; X25519 small-order u (7) x {plain, bit255}; scalars zero, n, n+1, valid+n, ff..ff; unclamped X25519 secrets", "depth": 1, "quick_equals_thorough": true}),
        assumptions: vec!["invalidity of every menu entry is established by the curve crates (ground truth), independent of opaque-ke".into(), "field positions come from the reference model's layout table; every locator first proves it finds the honest value".into()],
        exhaustive: true,
        crosscheck: json!(null),
    };
    fw::finish(rep, tot, t0)
}
