//! C17 - deterministic in the supplied randomness, and every random value is fresh.
//! Enumerated: every randomness-consuming operation x 3 input settings x tapes.  (i) equal tapes => identical
//! outputs and identical consumption.  (ii) fork enumeration: for every draw boundary of the recorded run (thorough:
//! every byte offset when the operation consumes <= 256 bytes) the operation is re-run on a tape identical before the
//! fork point and independent after it.  Demanded: a fork at or beyond the last byte consumed changes nothing; a fork
//! at 0 (independent tape) changes EVERY random field.  Which draws feed which field is recorded as evidence only.
//! (iii) all random values are pairwise distinct within a run and across runs on independent tapes.  (iv) fault
//! injection on the generator: with the k-th draw failing, the failure surfaces or the random fields stay fresh.
use super::common::*;
use crate::adapter::Blob;
use crate::api::Api;
use crate::flow::{self, o, Params};
use crate::fw::{self, Cx, Report, Tier, Totals};
use crate::refmodel::Kind;
use crate::tape::Tape;
use serde_json::json;
use std::collections::BTreeSet;
use std::time::Instant;

const OPS: [&str; 8] = ["setup", "setup_with_key", "reg_start", "reg_finish", "login_start", "slogin_start(record)", "slogin_start(no record)", "random_sk"];

struct Fixture {
    p: Params,
    setup: Vec<u8>,
    sk: Vec<u8>,
    reg: flow::Registration,
    ke1: Vec<u8>,
}

/// run one operation; returns the named random fields of its outputs, all outputs, and bytes consumed
fn run_op(api: &Api, fx: &Fixture, op: &str, t: &mut Tape) -> Result<(Vec<(String, Vec<u8>)>, Vec<Vec<u8>>, usize), String> {
    let sp = api.spec;
    let p = &fx.p;
    let start = t.pos;
    let fld = |k: Kind, n: &str, b: &[u8]| (format!("{}.{}", k.name(), n), sp.field(k, n).of(b).to_vec());
    let e = |x: crate::adapter::E| format!("{:?}", x);
    let (fields, outs) = match op {
        "setup" => {
            let s = api.setup(t).map_err(e)?;
            (vec![fld(Kind::Setup, "oprf_seed", &s), fld(Kind::Setup, "server_sk", &s), fld(Kind::Setup, "fake_sk", &s)], vec![s])
        }
        "setup_with_key" => {
            let s = api.setup_with_key(t, &fx.sk).map_err(e)?;
            if sp.field(Kind::Setup, "server_sk").of(&s) != &fx.sk[..] {
                return Err("new_with_key does not keep the given key".into());
            }
            (vec![fld(Kind::Setup, "oprf_seed", &s), fld(Kind::Setup, "fake_sk", &s)], vec![s])
        }
        "reg_start" => {
            let (rq, st) = api.reg_start(t, &p.pw).map_err(e)?;
            (vec![fld(Kind::CReg, "blind", &st), fld(Kind::RegReq, "blinded", &rq)], vec![rq, st])
        }
        "reg_finish" => {
            let (up, ek, pk) = api.reg_finish(t, &Blob::n(&fx.reg.creg), &p.pw, &Blob::n(&fx.reg.resp), o(&p.idu), o(&p.ids), None).map_err(e)?;
            (vec![fld(Kind::Upload, "envelope_nonce", &up), fld(Kind::Upload, "client_pk", &up), fld(Kind::Upload, "envelope_tag", &up), ("export_key".into(), ek.clone())], vec![up, ek, pk])
        }
        "login_start" => {
            let (k1, st) = api.login_start(t, &p.pw).map_err(e)?;
            (vec![fld(Kind::CLogin, "blind", &st), fld(Kind::CredReq, "blinded", &k1), fld(Kind::CredReq, "client_nonce", &k1), fld(Kind::CredReq, "client_epk", &k1), fld(Kind::CLogin, "client_esk", &st)], vec![k1, st])
        }
        "slogin_start(record)" | "slogin_start(no record)" => {
            let fb = if op.contains("no record") { None } else { Some(Blob::n(&fx.reg.file)) };
            let (k2, st) = api.slogin_start(t, &Blob::n(&fx.setup), fb.as_ref(), &Blob::n(&fx.ke1), &p.cid, o(&p.ctx), o(&p.idu), o(&p.ids)).map_err(e)?;
            (
                vec![fld(Kind::CredResp, "masking_nonce", &k2), fld(Kind::CredResp, "masked_response", &k2), fld(Kind::CredResp, "server_nonce", &k2), fld(Kind::CredResp, "server_epk", &k2), fld(Kind::CredResp, "server_mac", &k2), fld(Kind::SLogin, "session_key", &st)],
                vec![k2, st],
            )
        }
        "random_sk" => {
            let s = api.ke_random_sk(t).map_err(e)?;
            (vec![("sk".into(), s.clone())], vec![s])
        }
        _ => unreachable!(),
    };
    Ok((fields, outs, t.pos - start))
}

fn explore(api: &Api, setting_ix: usize, tier: Tier, seed: u64, cx: &mut Cx) {
    let p = setting(setting_ix);
    let fx = (|| -> Result<Fixture, String> {
        let mut t = Tape::seeded(seed, &format!("c17/fixture/{}", setting_ix));
        let setup = api.setup(&mut t).map_err(|e| format!("{:?}", e))?;
        let reg = flow::register(api, &mut t, &setup, &p.pw, &p.cid, o(&p.idu), o(&p.ids), None).map_err(|e| format!("{} {:?}", e.step, e.e))?;
        let (ke1, _) = api.login_start(&mut t, &p.pw).map_err(|e| format!("{:?}", e))?;
        let sk = api.spec.field(Kind::Setup, "fake_sk").of(&setup).to_vec();
        Ok(Fixture { p: p.clone(), setup, sk, reg, ke1 })
    })();
    let fx = match fx {
        Ok(f) => f,
        Err(e) => {
            cx.violate_case("honest-step/error", e, json!({}));
            return;
        }
    };
    cx.context_done();
    let ntapes = if tier.thorough() { 3 } else { 2 };
    let mut all_values: Vec<(String, Vec<u8>)> = vec![];
    for op in OPS {
        for ti in 0..ntapes {
            let label = format!("seed{}/c17/{}/{}/{}", seed, op, setting_ix, ti);
            cx.begin_case(json!({"op": op, "setting": setting_ix, "tape": ti, "check": "determinism"}));
            let mut t1 = Tape::new(&label);
            let base = match run_op(api, &fx, op, &mut t1) {
                Ok(b) => b,
                Err(e) => {
                    cx.violate(&format!("{}/error", op), e);
                    continue;
                }
            };
            let draws = t1.take_log();
            cx.state(&(op, ti, "base"));
            cx.edges += 1;
            // (i) determinism
            let mut t2 = Tape::new(&label);
            match run_op(api, &fx, op, &mut t2) {
                Ok(b2) if b2.1 == base.1 && b2.2 == base.2 => cx.outcome("deterministic"),
                Ok(_) => cx.violate(&format!("{}/nondeterministic", op), "two runs on identical tapes give different outputs: hidden entropy source".into()),
                Err(e) => cx.violate(&format!("{}/nondeterministic", op), format!("second run fails: {}", e)),
            }
            cx.edges += 1;
            let consumed = base.2;
            if consumed == 0 {
                cx.violate(&format!("{}/consumes-nothing", op), "the operation draws no randomness at all".into());
                continue;
            }
            // (iii) within-run coincidences among equal-length random values
            for i in 0..base.0.len() {
                for j in 0..i {
                    if base.0[i].1 == base.0[j].1 {
                        cx.violate(&format!("{}/coincidence/{}={}", op, base.0[i].0, base.0[j].0), "two random values of one run coincide".into());
                    }
                }
            }
            for (n, v) in &base.0 {
                all_values.push((format!("{}:{}@tape{}", op, n, ti), v.clone()));
            }
            // (ii) fork points
            let mut points: BTreeSet<usize> = draws.iter().map(|(off, _)| *off).collect();
            points.insert(0);
            points.insert(consumed);
            points.insert(consumed + 7);
            points.insert(consumed + 1000);
            if tier.thorough() && consumed <= 256 {
                points.extend(0..consumed);
            } else if !tier.thorough() && points.len() > 12 {
                // many rejection-sampling draws (P-521): quick keeps first, last and a few in between
                let v: Vec<usize> = points.iter().cloned().collect();
                let keep: BTreeSet<usize> = v.iter().enumerate().filter(|(i, x)| *i < 3 || **x >= consumed.saturating_sub(200) || i % 16 == 0).map(|(_, x)| *x).collect();
                points = keep;
            }
            let mut feeds: Vec<(usize, Vec<String>)> = vec![];
            for n in points {
                cx.begin_case(json!({"op": op, "setting": setting_ix, "tape": ti, "fork_at_byte": n, "consumed_by_base_run": consumed}));
                if !cx.state(&(op, ti, n)) {
                    continue;
                }
                cx.edges += 1;
                cx.path();
                let mut tf = Tape::forked(&label, &format!("{}/alt", label), n);
                match run_op(api, &fx, op, &mut tf) {
                    Err(e) => cx.violate(&format!("{}/error-on-fork", op), e),
                    Ok(f) => {
                        let changed: Vec<String> = base.0.iter().zip(&f.0).filter(|(a, b)| a.1 != b.1).map(|(a, _)| a.0.clone()).collect();
                        if n >= consumed {
                            if f.1 != base.1 || f.2 != base.2 {
                                cx.outcome("DEPENDS-ON-UNREAD-TAPE");
                                cx.violate(&format!("{}/depends-on-unread-tape", op), format!("a tape that differs only after byte {} (the operation consumed {}) changes the output", n, consumed));
                            } else {
                                cx.outcome("fork-beyond-consumption-changes-nothing");
                            }
                        } else if n == 0 {
                            let unchanged: Vec<&String> = base.0.iter().zip(&f.0).filter(|(a, b)| a.1 == b.1).map(|(a, _)| &a.0).collect();
                            if unchanged.is_empty() {
                                cx.outcome("independent-tape-changes-every-random-field");
                            } else {
                                cx.outcome("RANDOM-FIELD-IGNORES-TAPE");
                                for u in unchanged {
                                    cx.violate(&format!("{}/tape-independent/{}", op, u), format!("random field {} is identical on two independent tapes: it does not come from the supplied RNG", u));
                                }
                            }
                            for (nm, v) in &f.0 {
                                all_values.push((format!("{}:{}@alt{}", op, nm, ti), v.clone()));
                            }
                        } else {
                            cx.outcome("fork-inside");
                            feeds.push((n, changed));
                        }
                    }
                }
            }
            // (iv) failing generator: the k-th draw fails (try_fill_bytes -> Err, fill_bytes -> the generator's own
            // panic).  Either the failure surfaces (Err / the generator's panic), or - if the operation still returns a
            // result - every random field must still differ between two independent failing tapes: a value that was
            // silently replaced by a constant when the generator failed is not fresh.
            let offs: Vec<usize> = {
                let mut v: Vec<usize> = draws.iter().map(|(o, _)| *o).collect();
                if v.len() > 6 && !tier.thorough() {
                    let n = v.len();
                    v = vec![v[0], v[1], v[n / 2], v[n - 2], v[n - 1]];
                }
                v
            };
            for off in offs {
                cx.begin_case(json!({"op": op, "setting": setting_ix, "tape": ti, "generator_fails_at_byte": off}));
                if !cx.state(&(op, ti, "fail", off)) {
                    continue;
                }
                cx.edges += 2;
                cx.path();
                let mut ta = Tape::new(&label);
                ta.fail_at = Some(off);
                let mut tb = Tape::forked(&label, &format!("{}/alt", label), 0);
                tb.fail_at = Some(off);
                match (run_op(api, &fx, op, &mut ta), run_op(api, &fx, op, &mut tb)) {
                    (Ok(a), Ok(b)) => {
                        let same: Vec<&String> = a.0.iter().zip(&b.0).filter(|(x, y)| x.1 == y.1).map(|(x, _)| &x.0).collect();
                        if same.is_empty() {
                            cx.outcome("rng-failure-tolerated-values-still-fresh");
                        } else {
                            cx.outcome("RNG-FAILURE-GIVES-CONSTANT");
                            for f in same {
                                cx.violate(&format!("{}/constant-after-rng-failure/{}", op, f), format!("when the random generator fails, the operation still succeeds and random field {} is the same on independent tapes", f));
                            }
                        }
                    }
                    _ => cx.outcome("rng-failure-surfaces"),
                }
            }
            if ti == 0 {
                cx.sample(json!({"suite": api.name(), "op": op, "setting": setting_ix, "consumed_bytes": consumed, "draws": draws.iter().map(|(o, b)| json!([o, b.len()])).collect::<Vec<_>>().iter().take(12).cloned().collect::<Vec<_>>(),
                    "fields_changed_by_fork_at": feeds.iter().take(8).map(|(n, c)| json!({"byte": n, "changed": c})).collect::<Vec<_>>()}));
                cx.max_samples = 3;
            }
        }
    }
    // (iii) across runs
    // (v) every BYTE of every random value varies: each operation on 14 further independent generators; a byte of a
    // random field that is the same on all of them (an OPRF seed of which only the first 32 bytes are drawn, a nonce with
    // a constant tail) is not random.  First and last byte of scalars / group elements are exempt (format octets, the
    // top byte of a P-521 scalar).
    if setting_ix == 0 {
        for op in OPS {
            let mut samples: std::collections::BTreeMap<String, Vec<Vec<u8>>> = std::collections::BTreeMap::new();
            for k in 0..14 {
                let mut tv = Tape::new(&format!("seed{}/c17/{}/var/{}", seed, op, k));
                cx.edges += 1;
                if let Ok(r) = run_op(api, &fx, op, &mut tv) {
                    for (n, v) in r.0 {
                        samples.entry(n).or_default().push(v);
                    }
                }
            }
            for (field, vals) in samples {
                if vals.len() < 12 || vals.iter().any(|v| v.len() != vals[0].len()) {
                    continue;
                }
                let uniform = ["oprf_seed", "nonce", "envelope_tag", "export_key", "server_mac", "session_key", "masked_response"].iter().any(|u| field.contains(u));
                let len = vals[0].len();
                let range = if uniform { 0..len } else { 1..len.saturating_sub(1) };
                cx.begin_case(json!({"check": "every byte varies", "op": op, "field": field, "generators": vals.len()}));
                cx.state(&("bytevar", op, &field));
                cx.path();
                let constant: Vec<usize> = range.filter(|j| vals.iter().all(|v| v[*j] == vals[0][*j])).collect();
                if constant.is_empty() {
                    cx.outcome("every-byte-varies");
                } else {
                    cx.outcome("CONSTANT-BYTES");
                    cx.violate(&format!("{}/constant-bytes/{}", op, field), format!("bytes {:?} of random field {} are the same on {} independent generators: they do not come from the supplied RNG", if constant.len() > 8 { constant[..8].to_vec() } else { constant.clone() }, field, vals.len()));
                }
            }
        }
    }
    cx.begin_case(json!({"check": "coincidences across runs", "values": all_values.len()}));
    let mut sorted: Vec<&(String, Vec<u8>)> = all_values.iter().collect();
    sorted.sort_by(|a, b| a.1.cmp(&b.1));
    for w in sorted.windows(2) {
        if w[0].1 == w[1].1 && w[0].1.len() >= 16 {
            // the same field of the same op legitimately repeats only if it is not random; session keys etc. excluded above
            cx.violate("coincidence-across-runs", format!("random values {} and {} coincide", w[0].0, w[1].0));
        }
    }
    cx.add("random_values_compared", all_values.len() as u64);
}

/// long-lived objects: one in-memory ServerSetup (and in-memory password files, cloned per login) serves every sequence
/// of up to 3 operations from a menu of registrations / logins for two credential ids and two users; each output must
/// equal the output of the same operation on a freshly deserialized setup.  A cache inside the object (OnceCell,
/// RefCell, lazily derived key) keyed by too little shows as a difference.
fn long_lived(api: &Api, seed: u64, cx: &mut Cx) {
    use crate::adapter::SrvOp;
    let (p1, p2) = (setting(0), setting(1));
    let fx = (|| -> Result<_, String> {
        let mut t = Tape::seeded(seed, "c17/ll");
        let setup = api.setup(&mut t).map_err(|e| format!("{:?}", e))?;
        let r1 = flow::register(api, &mut t, &setup, &p1.pw, &p1.cid, None, None, None).map_err(|e| format!("{} {:?}", e.step, e.e))?;
        let r2 = flow::register(api, &mut t, &setup, &p2.pw, &p2.cid, None, None, None).map_err(|e| format!("{} {:?}", e.step, e.e))?;
        let (k1, _) = api.login_start(&mut t, &p1.pw).map_err(|e| format!("{:?}", e))?;
        let (k2, _) = api.login_start(&mut t, &p2.pw).map_err(|e| format!("{:?}", e))?;
        Ok((setup, r1, r2, k1, k2))
    })();
    let (setup, r1, r2, k1, k2) = match fx {
        Ok(x) => x,
        Err(e) => {
            cx.violate_case("honest-step/error", e, json!({}));
            return;
        }
    };
    cx.context_done();
    let files = vec![r1.file.clone(), r2.file.clone()];
    let tp = |n: usize| Tape::new(&format!("seed{}/c17/ll/op{}", seed, n)).spec();
    let menu: Vec<SrvOp> = vec![
        SrvOp::Reg { req: r1.req.clone(), cid: p1.cid.clone() },
        SrvOp::Reg { req: r1.req.clone(), cid: p2.cid.clone() },
        SrvOp::Login { file: Some(0), ke1: k1.clone(), cid: p1.cid.clone(), ctx: None, tape: tp(2) },
        SrvOp::Login { file: Some(1), ke1: k2.clone(), cid: p2.cid.clone(), ctx: Some(hex::encode(b"c")), tape: tp(3) },
        SrvOp::Login { file: None, ke1: k1.clone(), cid: p1.cid.clone(), ctx: None, tape: tp(4) },
        SrvOp::Login { file: None, ke1: k1.clone(), cid: p2.cid.clone(), ctx: None, tape: tp(5) },
        SrvOp::Login { file: Some(0), ke1: k1.clone(), cid: p2.cid.clone(), ctx: None, tape: tp(6) },
    ];
    // reference: each operation alone on a fresh object
    let mut alone = vec![];
    for op in &menu {
        match api.server_session(&setup, &files, std::slice::from_ref(op)) {
            Ok(v) => alone.push(v[0].clone()),
            Err(e) => {
                cx.violate_case("honest-step/error", format!("{:?}", e), json!({}));
                return;
            }
        }
    }
    let n = menu.len();
    let mut seqs: Vec<Vec<usize>> = vec![];
    for a in 0..n {
        for b in 0..n {
            seqs.push(vec![a, b]);
            for c in 0..n {
                seqs.push(vec![a, b, c]);
            }
        }
    }
    for sq in seqs {
        cx.begin_case(json!({"long_lived_server_object": "one ServerSetup + in-memory password files", "operation_sequence": sq}));
        if !cx.state(&("ll", &sq)) {
            continue;
        }
        cx.edges += sq.len() as u64;
        cx.path();
        let ops: Vec<SrvOp> = sq.iter().map(|i| menu[*i].clone()).collect();
        match api.server_session(&setup, &files, &ops) {
            Ok(outs) => {
                let mut ok = true;
                for (k, i) in sq.iter().enumerate() {
                    if outs[k] != alone[*i] {
                        ok = false;
                        cx.violate("long-lived-object/history-dependent", format!("operation #{} of the sequence {:?} on a long-lived ServerSetup gives a different result than on a freshly loaded one", k, sq));
                    }
                }
                if ok {
                    cx.outcome("long-lived-object-equals-fresh");
                }
            }
            Err(e) => cx.violate("honest-step/error", format!("{:?}", e)),
        }
    }
    cx.sample(json!({"suite": api.name(), "part": "long-lived server object", "menu": 7, "sequences": "all of length 2 and 3"}));
}

pub fn run(tier: Tier, seed: u64) -> i32 {
    let t0 = Instant::now();
    let mut items = vec![];
    for api in all_apis() {
        for s in 0..3 {
            items.push((api, s));
        }
    }
    // Sequential prelude, one thread, nothing else running: every operation twice back to back on identical tapes,
    // then once more after other operations ran in between.  Process-wide hidden state (a static, a cache, a counter)
    // shows here deterministically; the parallel exploration below could otherwise see it only by luck of scheduling.
    let pool1 = rayon::ThreadPoolBuilder::new().num_threads(1).build().expect("pool");
    let apis = all_apis();
    let one = vec![0usize];
    let mut tot = pool1.install(|| {
        fw::run_items("C17", &one, |_| "all-suites(sequential)".to_string(), |_, cx| {
            for api in &apis {
                let p = setting(0);
                let fx = (|| -> Result<Fixture, String> {
                    let mut t = Tape::seeded(seed, "c17/seq/fixture");
                    let setup = api.setup(&mut t).map_err(|e| format!("{:?}", e))?;
                    let reg = flow::register(api, &mut t, &setup, &p.pw, &p.cid, o(&p.idu), o(&p.ids), None).map_err(|e| format!("{} {:?}", e.step, e.e))?;
                    let (ke1, _) = api.login_start(&mut t, &p.pw).map_err(|e| format!("{:?}", e))?;
                    let sk = api.spec.field(Kind::Setup, "fake_sk").of(&setup).to_vec();
                    Ok(Fixture { p: p.clone(), setup, sk, reg, ke1 })
                })();
                let fx = match fx {
                    Ok(f) => f,
                    Err(e) => {
                        cx.violate_case("honest-step/error", e, json!({"suite": api.name()}));
                        continue;
                    }
                };
                let mut firsts = vec![];
                for op in OPS {
                    let label = format!("seed{}/c17/seq/{}", seed, op);
                    cx.begin_case(json!({"suite": api.name(), "op": op, "check": "same operation twice back to back on identical tapes, single thread"}));
                    cx.state(&(api.name(), op, "seq"));
                    cx.edges += 2;
                    cx.path();
                    let a = run_op(api, &fx, op, &mut Tape::new(&label));
                    let b = run_op(api, &fx, op, &mut Tape::new(&label));
                    match (&a, &b) {
                        (Ok(x), Ok(y)) if x.1 == y.1 && x.2 == y.2 => cx.outcome("deterministic-back-to-back"),
                        (Ok(_), Ok(_)) => cx.violate(&format!("{}/hidden-state", op), format!("{} run twice back to back on identical tapes (single thread) gives different outputs: hidden state between calls", op)),
                        _ => cx.violate(&format!("{}/error", op), "operation fails".into()),
                    }
                    firsts.push((op, label, a));
                }
                // order independence: a menu of calls with DIFFERENT inputs (two users, two credential ids, two setups) is
                // executed in three different orders in this one thread; every call must give the same output in every
                // order.  A cache / memo / static keyed by too little makes a call's output depend on what ran before it.
                {
                    let p2 = setting(1);
                    let fx2 = (|| -> Result<Fixture, String> {
                        let mut t = Tape::seeded(seed, "c17/seq/fixture2");
                        let setup = api.setup(&mut t).map_err(|e| format!("{:?}", e))?;
                        let reg = flow::register(api, &mut t, &setup, &p2.pw, &p2.cid, None, None, None).map_err(|e| format!("{} {:?}", e.step, e.e))?;
                        let (ke1, _) = api.login_start(&mut t, &p2.pw).map_err(|e| format!("{:?}", e))?;
                        Ok(Fixture { p: p2.clone(), setup, sk: vec![], reg, ke1 })
                    })();
                    if let Ok(fx2) = fx2 {
                        type Call<'a> = (String, Box<dyn Fn() -> Result<Vec<Vec<u8>>, String> + 'a>);
                        let e = |x: crate::adapter::E| format!("{:?}", x);
                        let lab = |n: &str| format!("seed{}/c17/order/{}", seed, n);
                        let mut calls: Vec<Call> = vec![];
                        for (fi, f) in [&fx, &fx2].into_iter().enumerate() {
                            for (ci, cid) in [&fx.p.cid, &fx2.p.cid].into_iter().enumerate() {
                                let (f, cid) = (f, cid.clone());
                                let c2 = cid.clone();
                                calls.push((format!("sreg_start(setup{}, req{}, cid{})", fi, fi, ci), Box::new(move || api.sreg_start(&Blob::n(&f.setup), &Blob::n(&f.reg.req), &cid).map(|x| vec![x]).map_err(e))));
                                let l = lab(&format!("sl{}{}", fi, ci));
                                let c3 = c2.clone();
                                let l2 = l.clone();
                                calls.push((format!("slogin_start(setup{}, file{}, cid{})", fi, fi, ci), Box::new(move || api.slogin_start(&mut Tape::new(&l), &Blob::n(&f.setup), Some(&Blob::n(&f.reg.file)), &Blob::n(&f.ke1), &c2, None, None, None).map(|(a, b)| vec![a, b]).map_err(e))));
                                calls.push((format!("slogin_start(setup{}, no record, cid{})", fi, ci), Box::new(move || api.slogin_start(&mut Tape::new(&l2), &Blob::n(&f.setup), None, &Blob::n(&f.ke1), &c3, None, None, None).map(|(a, b)| vec![a, b]).map_err(e))));
                            }
                            let l = lab(&format!("rf{}", fi));
                            calls.push((format!("reg_finish(user{})", fi), Box::new(move || api.reg_finish(&mut Tape::new(&l), &Blob::n(&f.reg.creg), &f.p.pw, &Blob::n(&f.reg.resp), None, None, None).map(|(a, b, c)| vec![a, b, c]).map_err(e))));
                            let l = lab(&format!("rs{}", fi));
                            calls.push((format!("reg_start(pw{})", fi), Box::new(move || api.reg_start(&mut Tape::new(&l), &f.p.pw).map(|(a, b)| vec![a, b]).map_err(e))));
                            let l = lab(&format!("ls{}", fi));
                            calls.push((format!("login_start(pw{})", fi), Box::new(move || api.login_start(&mut Tape::new(&l), &f.p.pw).map(|(a, b)| vec![a, b]).map_err(e))));
                        }
                        // near-miss server setups: the same setup with one byte of the OPRF seed changed (last byte; byte 8)
                        let nhs = api.spec.nh();
                        let mut near: Vec<Vec<u8>> = vec![];
                        for pos in [nhs - 1, 8.min(nhs - 1), 0] {
                            let mut s2 = fx.setup.clone();
                            s2[pos] ^= 1;
                            near.push(s2);
                        }
                        for (ni, s2) in near.into_iter().enumerate() {
                            let cid = fx.p.cid.clone();
                            let f = &fx;
                            calls.push((format!("sreg_start(setup0 with seed variant {}, req0, cid0)", ni), Box::new(move || api.sreg_start(&Blob::n(&s2), &Blob::n(&f.reg.req), &cid).map(|x| vec![x]).map_err(e))));
                        }
                        let n = calls.len();
                        let orders: Vec<Vec<usize>> = vec![(0..n).collect(), (0..n).rev().collect(), (0..n).map(|i| (i * 7 + 3) % n).collect()];
                        let mut seen: Vec<Option<Result<Vec<Vec<u8>>, String>>> = vec![None; n];
                        for (oi, ord) in orders.iter().enumerate() {
                            // (i*7+3) mod n is a permutation when gcd(7, n) = 1; otherwise fall back to a rotation
                            let mut ord = ord.clone();
                            let mut chk = ord.clone();
                            chk.sort();
                            chk.dedup();
                            if chk.len() != n {
                                ord = (0..n).map(|i| (i + n / 2) % n).collect();
                            }
                            for &ix in &ord {
                                cx.begin_case(json!({"suite": api.name(), "check": "order independence", "order": oi, "call": calls[ix].0}));
                                cx.edges += 1;
                                let r = (calls[ix].1)();
                                match &seen[ix] {
                                    None => seen[ix] = Some(r),
                                    Some(prev) => {
                                        if prev != &r {
                                            cx.violate(&format!("order-dependent/{}", calls[ix].0.split('(').next().unwrap_or("")), format!("{} gives a different output when other calls (with other inputs) ran before it: state leaks between calls", calls[ix].0));
                                        } else {
                                            cx.outcome("order-independent");
                                        }
                                    }
                                }
                            }
                        }
                        cx.state(&(api.name(), "order-independence"));
                        cx.path();
                    }
                }
                // and again after all the other operations ran in between
                for (op, label, a) in firsts {
                    cx.begin_case(json!({"suite": api.name(), "op": op, "check": "same operation again after other operations, identical tape"}));
                    cx.edges += 1;
                    let c = run_op(api, &fx, op, &mut Tape::new(&label));
                    match (&a, &c) {
                        (Ok(x), Ok(y)) if x.1 == y.1 && x.2 == y.2 => cx.outcome("deterministic-across-history"),
                        (Ok(_), Ok(_)) => cx.violate(&format!("{}/history-dependent", op), format!("{} on an identical tape gives a different output after other operations ran: hidden state", op)),
                        _ => {}
                    }
                }
            }
        })
    });
    tot.merge(fw::run_items("C17", &items, |(a, _)| a.name().to_string(), |(api, s), cx| explore(api, *s, tier, seed, cx)));
    tot.merge(fw::run_items("C17", &apis, |a| a.name().to_string(), |api, cx| long_lived(api, seed, cx)));
    let rep = Report {
        property: "C17",
        tier,
        seed,
        rule: "8 randomness-consuming operations x 3 settings x tapes x 20 suites; each (operation, tape, fork point) is one state: the operation re-executed on a tape forked at that byte; fork points = every draw boundary, 0, the consumption end and beyond (thorough: every byte offset for operations consuming <= 256 bytes)".into(),
        bounds: json!({"suites": 20, "operations": OPS, "settings": 3, "tapes": if tier.thorough() {3} else {2}, "fork_points": if tier.thorough() {"all draw boundaries; every byte offset when <=256 bytes are consumed"} else {"draw boundaries (thinned when >12), 0, end, beyond"}}),
        assumptions: vec!["decides dependence on the tape and absence of coincidences within the explored runs, not statistical quality".into()],
        exhaustive: true,
        crosscheck: json!(null),
    };
    fw::finish(rep, tot, t0)
}
