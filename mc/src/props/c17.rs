//! C17 - deterministic in the supplied randomness, and every random value is fresh.
//! Enumerated: every randomness-consuming operation x 3 input settings x tapes.  (i) equal tapes => identical
//! outputs and identical consumption.  (ii) fork enumeration: for every draw boundary of the recorded run (thorough:
//! every byte offset when the operation consumes <= 256 bytes) the operation is re-run on a tape identical before the
//! fork point and independent after it.  Demanded: a fork at or beyond the last byte consumed changes nothing; a fork
//! at 0 (independent tape) changes EVERY random field.  Which draws feed which field is recorded as evidence only.
//! (iii) all random values are pairwise distinct within a run and across runs on independent tapes.  (iv) fault
//! injection on the generator: with the k-th draw failing, the failure surfaces or the random fields stay fresh.
use super::common::*;
use crate::adapter::Blob;
use crate::api::Api;
use crate::flow::{self, o, Params};
use crate::fw::{self, Cx, Report, Tier, Totals};
use crate::refmodel::Kind;
use crate::tape::Tape;
use serde_json::json;
use std::collections::BTreeSet;
use std::time::Instant;

const OPS: [&str; 8] = ["setup", "setup_with_key", "reg_start", "reg_finish", "login_start", "slogin_start(record)", "slogin_start(no record)", "random_sk"];

struct Fixture {
    p: Params,
    setup: Vec<u8>,
    sk: Vec<u8>,
    reg: flow::Registration,
    ke1: Vec<u8>,
}

/// run one operation; returns the named random fields of its outputs, all outputs, and bytes consumed
fn run_op(api: &Api, fx: &Fixture, op: &str, t: &mut Tape) -> Result<(Vec<(String, Vec<u8>)>, Vec<Vec<u8>>, usize), String> {
    let sp = api.spec;
    let p = &fx.p;
    let start = t.pos;
    let fld = |k: Kind, n: &str, b: &[u8]| (format!("{}.{}", k.name(), n), sp.field(k, n).of(b).to_vec());
    let e = |x: crate::adapter::E| format!("{:?}", x);
    let (fields, outs) = match op {
        "setup" => {
            let s = api.setup(t).map_err(e)?;
            (vec![fld(Kind::Setup, "oprf_seed", &s), fld(Kind::Setup, "server_sk", &s), fld(Kind::Setup, "fake_sk", &s)], vec![s])
        }
        "setup_with_key" => {
            let s = api.setup_with_key(t, &fx.sk).map_err(e)?;
            if sp.field(Kind::Setup, "server_sk").of(&s) != &fx.sk[..] {
                return Err("new_with_key does not keep the given key".into());
            }
            (vec![fld(Kind::Setup, "oprf_seed", &s), fld(Kind::Setup, "fake_sk", &s)], vec![s])
        }
        "reg_start" => {
            let (rq, st) = api.reg_start(t, &p.pw).map_err(e)?;
            (vec![fld(Kind::CReg, "blind", &st), fld(Kind::RegReq, "blinded", &rq)], vec![rq, st])
        }
        "reg_finish" => {
            let (up, ek, pk) = api.reg_finish(t, &Blob::n(&fx.reg.creg), &p.pw, &Blob::n(&fx.reg.resp), o(&p.idu), o(&p.ids), None).map_err(e)?;
            (vec![fld(Kind::Upload, "envelope_nonce", &up), fld(Kind::Upload, "client_pk", &up), fld(Kind::Upload, "envelope_tag", &up), ("export_key".into(), ek.clone())], vec![up, ek, pk])
        }
        "login_start" => {
            let (k1, st) = api.login_start(t, &p.pw).map_err(e)?;
            (vec![fld(Kind::CLogin, "blind", &st), fld(Kind::CredReq, "blinded", &k1), fld(Kind::CredReq, "client_nonce", &k1), fld(Kind::CredReq, "client_epk", &k1), fld(Kind::CLogin, "client_esk", &st)], vec![k1, st])
        }
        "slogin_start(record)" | "slogin_start(no record)" => {
            let fb = if op.contains("no record") { None } else { Some(Blob::n(&fx.reg.file)) };
            let (k2, st) = api.slogin_start(t, &Blob::n(&fx.setup), fb.as_ref(), &Blob::n(&fx.ke1), &p.cid, o(&p.ctx), o(&p.idu), o(&p.ids)).map_err(e)?;
            (
                vec![fld(Kind::CredResp, "masking_nonce", &k2), fld(Kind::CredResp, "masked_response", &k2), fld(Kind::CredResp, "server_nonce", &k2), fld(Kind::CredResp, "server_epk", &k2), fld(Kind::CredResp, "server_mac", &k2), fld(Kind::SLogin, "session_key", &st)],
                vec![k2, st],
            )
        }
        "random_sk" => {
            let s = api.ke_random_sk(t).map_err(e)?;
            (vec![("sk".into(), s.clone())], vec![s])
        }
        _ => unreachable!(),
    };
    Ok((fields, outs, t.pos - start))
}

fn explore(api: &Api, setting_ix: usize, tier: Tier, seed: u64, cx: &mut Cx) {
    let p = setting(setting_ix);
    let fx = (|| -> Result<Fixture, String> {
        let mut t = Tape::seeded(seed, &format!("c17/fixture/{}", setting_ix));
        let setup = api.setup(&mut t).map_err(|e| format!("{:?}", e))?;
        let reg = flow::register(api, &mut t, &setup, &p.pw, &p.cid, o(&p.idu), o(&p.ids), None).map_err(|e| format!("{} {:?}", e.step, e.e))?;
        let (ke1, _) = api.login_start(&mut t, &p.pw).map_err(|e| format!("{:?}", e))?;
        let sk = api.spec.field(Kind::Setup, "fake_sk").of(&setup).to_vec();
        Ok(Fixture { p: p.clone(), setup, sk, reg, ke1 })
    })();
    let fx = match fx {
        Ok(f) => f,
        Err(e) => {
            cx.violate_case("honest-step/error", e, json!({}));
            return;
        }
    };
    cx.context_done();
    let ntapes = if tier.thorough() { 3 } else { 2 };
    let mut all_values: Vec<(String, Vec<u8>)> = vec![];
    for op in OPS {
        for ti in 0..ntapes {
            let label = format!("seed{}/c17/{}/{}/{}", seed, op, setting_ix, ti);
            cx.begin_case(json!({"op": op, "setting": setting_ix, "tape": ti, "check": "determinism"}));
            let mut t1 = Tape::new(&label);
            let base = match run_op(api, &fx, op, &mut t1) {
                Ok(b) => b,
                Err(e) => {
                    cx.violate(&format!("{}/error", op), e);
                    continue;
                }
            };
            let draws = t1.take_log();
            cx.state(&(op, ti, "base"));
            cx.edges += 1;
            // (i) determinism
            let mut t2 = Tape::new(&label);
            match run_op(api, &fx, op, &mut t2) {
                Ok(b2) if b2.1 == base.1 && b2.2 == base.2 => cx.outcome("deterministic"),
                Ok(_) => cx.violate(&format!("{}/nondeterministic", op), "two runs on identical tapes give different outputs: hidden entropy source".into()),
                Err(e) => cx.violate(&format!("{}/nondeterministic", op), format!("second run fails: {}", e)),
            }
            cx.edges += 1;
            let consumed = base.2;
            if consumed == 0 {
                cx.violate(&format!("{}/consumes-nothing", op), "the operation draws no randomness at all".into());
                continue;
            }
            // (iii) within-run coincidences among equal-length random values
            for i in 0..base.0.len() {
                for j in 0..i {
                    if base.0[i].1 == base.0[j].1 {
                        cx.violate(&format!("{}/coincidence/{}={}", op, base.0[i].0, base.0[j].0), "two random values of one run coincide".into());
                    }
                }
            }
            for (n, v) in &base.0 {
                all_values.push((format!("{}:{}@tape{}", op, n, ti), v.clone()));
            }
            // (ii) fork points
            let mut points: BTreeSet<usize> = draws.iter().map(|(off, _)| *off).collect();
            points.insert(0);
            points.insert(consumed);
            points.insert(consumed + 7);
            points.insert(consumed + 1000);
            if tier.thorough() && consumed <= 256 {
                points.extend(0..consumed);
            } else if !tier.thorough() && points.len() > 12 {
                // many rejection-sampling draws (P-521): quick keeps first, last and a few in between
                let v: Vec<usize> = points.iter().cloned().collect();
                let keep: BTreeSet<usize> = v.iter().enumerate().filter(|(i, x)| *i < 3 || **x >= consumed.saturating_sub(200) || i % 16 == 0).map(|(_, x)| *x).collect();
                points = keep;
            }
            let mut feeds: Vec<(usize, Vec<String>)> = vec![];
            for n in points {
                cx.begin_case(json!({"op": op, "setting": setting_ix, "tape": ti, "fork_at_byte": n, "consumed_by_base_run": consumed}));
                if !cx.state(&(op, ti, n)) {
                    continue;
                }
                cx.edges += 1;
                cx.path();
                let mut tf = Tape::forked(&label, &format!("{}/alt", label), n);
                match run_op(api, &fx, op, &mut tf) {
                    Err(e) => cx.violate(&format!("{}/error-on-fork", op), e),
                    Ok(f) => {
                        let changed: Vec<String> = base.0.iter().zip(&f.0).filter(|(a, b)| a.1 != b.1).map(|(a, _)| a.0.clone()).collect();
                        if n >= consumed {
                            if f.1 != base.1 || f.2 != base.2 {
                                cx.outcome("DEPENDS-ON-UNREAD-TAPE");
                                cx.violate(&format!("{}/depends-on-unread-tape", op), format!("a tape that differs only after byte {} (the operation consumed {}) changes the output", n, consumed));
                            } else {
                                cx.outcome("fork-beyond-consumption-changes-nothing");
                            }
                        } else if n == 0 {
                            let unchanged: Vec<&String> = base.0.iter().zip(&f.0).filter(|(a, b)| a.1 == b.1).map(|(a, _)| &a.0).collect();
                            if unchanged.is_empty() {
                                cx.outcome("independent-tape-changes-every-random-field");
                            } else {
                                cx.outcome("RANDOM-FIELD-IGNORES-TAPE");
                                for u in unchanged {
                                    cx.violate(&format!("{}/tape-independent/{}", op, u), format!("random field {} is identical on two independent tapes: it does not come from the supplied RNG", u));
                                }
                            }
                            for (nm, v) in &f.0 {
                                all_values.push((format!("{}:{}@alt{}", op, nm, ti), v.clone()));
                            }
                        } else {
                            cx.outcome("fork-inside");
                            feeds.push((n, changed));
                        }
                    }
                }
            }
            // (iv) failing generator: the k-th draw fails (try_fill_bytes -> Err, fill_bytes -> the generator's own
            // panic).  Either the failure surfaces (Err / the generator's panic), or - if the operation still returns a
            // result - every random field must still differ between two independent failing tapes: a value that was
            // silently replaced by a constant when the generator failed is not fresh.
            let offs: Vec<usize> = {
                let mut v: Vec<usize> = draws.iter().map(|(o, _)| *o).collect();
                if v.len() > 6 && !tier.thorough() {
                    let n = v.len();
                    v = vec![v[0], v[1], v[n / 2], v[n - 2], v[n - 1]];
                }
                v
            };
            for off in offs {
                cx.begin_case(json!({"op": op, "setting": setting_ix, "tape": ti, "generator_fails_at_byte": off}));
                if !cx.state(&(op, ti, "fail", off)) {
                    continue;
                }
                cx.edges += 2;
                cx.path();
                let mut ta = Tape::new(&label);
                ta.fail_at = Some(off);
                let mut tb = Tape::forked(&label, &format!("{}/alt", label), 0);
                tb.fail_at = Some(off);
                match (run_op(api, &fx, op, &mut ta), run_op(api, &fx, op, &mut tb)) {
                    (Ok(a), Ok(b)) => {
                        let same: Vec<&String> = a.0.iter().zip(&b.0).filter(|(x, y)| x.1 == y.1).map(|(x, _)| &x.0).collect();
                        if same.is_empty() {
                            cx.outcome("rng-failure-tolerated-values-still-fresh");
                        } else {
                            cx.outcome("RNG-FAILURE-GIVES-CONSTANT");
                            for f in same {
                                cx.violate(&format!("{}/constant-after-rng-failure/{}", op, f), format!("when the random generator fails, the operation still succeeds and random field {} is the same on independent tapes", f));
                            }
                        }
                    }
                    _ => cx.outcome("rng-failure-surfaces"),
                }
            }
            if ti == 0 {
                cx.sample(json!({"suite": api.name(), "op": op, "setting": setting_ix, "consumed_bytes": consumed, "draws": draws.iter().map(|(o, b)| json!([o, b.len()])).collect::<Vec<_>>().iter().take(12).cloned().collect::<Vec<_>>(),
                    "fields_changed_by_fork_at": feeds.iter().take(8).map(|(n, c)| json!({"byte": n, "changed": c})).collect::<Vec<_>>()}));
                cx.max_samples = 3;
            }
        }
    }
    // (iii) across runs
    cx.begin_case(json!({"check": "coincidences across runs", "values": all_values.len()}));
    let mut sorted: Vec<&(String, Vec<u8>)> = all_values.iter().collect();
    sorted.sort_by(|a, b| a.1.cmp(&b.1));
    for w in sorted.windows(2) {
        if w[0].1 == w[1].1 && w[0].1.len() >= 16 {
            // the same field of the same op legitimately repeats only if it is not random; session keys etc. excluded above
            cx.violate("coincidence-across-runs", format!("random values {} and {} coincide", w[0].0, w[1].0));
        }
    }
    cx.add("random_values_compared", all_values.len() as u64);
}

pub fn run(tier: Tier, seed: u64) -> i32 {
    let t0 = Instant::now();
    let mut items = vec![];
    for api in all_apis() {
        for s in 0..3 {
            items.push((api, s));
        }
    }
    // Sequential prelude, one thread, nothing else running: every operation twice back to back on identical tapes,
    // then once more after other operations ran in between.  Process-wide hidden state (a static, a cache, a counter)
    // shows here deterministically; the parallel exploration below could otherwise see it only by luck of scheduling.
    let pool1 = rayon::ThreadPoolBuilder::new().num_threads(1).build().expect("pool");
    let apis = all_apis();
    let one = vec![0usize];
    let mut tot = pool1.install(|| {
        fw::run_items("C17", &one, |_| "all-suites(sequential)".to_string(), |_, cx| {
            for api in &apis {
                let p = setting(0);
                let fx = (|| -> Result<Fixture, String> {
                    let mut t = Tape::seeded(seed, "c17/seq/fixture");
                    let setup = api.setup(&mut t).map_err(|e| format!("{:?}", e))?;
                    let reg = flow::register(api, &mut t, &setup, &p.pw, &p.cid, o(&p.idu), o(&p.ids), None).map_err(|e| format!("{} {:?}", e.step, e.e))?;
                    let (ke1, _) = api.login_start(&mut t, &p.pw).map_err(|e| format!("{:?}", e))?;
                    let sk = api.spec.field(Kind::Setup, "fake_sk").of(&setup).to_vec();
                    Ok(Fixture { p: p.clone(), setup, sk, reg, ke1 })
                })();
                let fx = match fx {
                    Ok(f) => f,
                    Err(e) => {
                        cx.violate_case("honest-step/error", e, json!({"suite": api.name()}));
                        continue;
                    }
                };
                let mut firsts = vec![];
                for op in OPS {
                    let label = format!("seed{}/c17/seq/{}", seed, op);
                    cx.begin_case(json!({"suite": api.name(), "op": op, "check": "same operation twice back to back on identical tapes, single thread"}));
                    cx.state(&(api.name(), op, "seq"));
                    cx.edges += 2;
                    cx.path();
                    let a = run_op(api, &fx, op, &mut Tape::new(&label));
                    let b = run_op(api, &fx, op, &mut Tape::new(&label));
                    match (&a, &b) {
                        (Ok(x), Ok(y)) if x.1 == y.1 && x.2 == y.2 => cx.outcome("deterministic-back-to-back"),
                        (Ok(_), Ok(_)) => cx.violate(&format!("{}/hidden-state", op), format!("{} run twice back to back on identical tapes (single thread) gives different outputs: hidden state between calls", op)),
                        _ => cx.violate(&format!("{}/error", op), "operation fails".into()),
                    }
                    firsts.push((op, label, a));
                }
                // and again after all the other operations ran in between
                for (op, label, a) in firsts {
                    cx.begin_case(json!({"suite": api.name(), "op": op, "check": "same operation again after other operations, identical tape"}));
                    cx.edges += 1;
                    let c = run_op(api, &fx, op, &mut Tape::new(&label));
                    match (&a, &c) {
                        (Ok(x), Ok(y)) if x.1 == y.1 && x.2 == y.2 => cx.outcome("deterministic-across-history"),
                        (Ok(_), Ok(_)) => cx.violate(&format!("{}/history-dependent", op), format!("{} on an identical tape gives a different output after other operations ran: hidden state", op)),
                        _ => {}
                    }
                }
            }
        })
    });
    tot.merge(fw::run_items("C17", &items, |(a, _)| a.name().to_string(), |(api, s), cx| explore(api, *s, tier, seed, cx)));
    let rep = Report {
        property: "C17",
        tier,
        seed,
        rule: "8 randomness-consuming operations x 3 settings x tapes x 20 suites; each (operation, tape, fork point) is one state: the operation re-executed on a tape forked at that byte; fork points = every draw boundary, 0, the consumption end and beyond (thorough: every byte offset for operations consuming <= 256 bytes)".into(),
        bounds: json!({"suites": 20, "operations": OPS, "settings": 3, "tapes": if tier.thorough() {3} else {2}, "fork_points": if tier.thorough() {"all draw boundaries; every byte offset when <=256 bytes are consumed"} else {"draw boundaries (thinned when >12), 0, end, beyond"}}),
        assumptions: vec!["decides dependence on the tape and absence of coincidences within the explored runs, not statistical quality".into()],
        exhaustive: true,
        crosscheck: json!(null),
    };
    fw::finish(rep, tot, t0)
}
