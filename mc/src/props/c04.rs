//! C04 - the client completes login only on the server's genuine response.
//! Mutation LTS rooted at an honest credential response: depth-1 byte substitutions (quick: every offset x
//! {^0x01,^0x80} and all 256 values of the leading byte of each element field; thorough: every offset x all 255
//! values), field splices from responses of {another session of the same user, another user, another server, a
//! fake record, fresh tape bytes}, whole responses made for another request.  Oracle: bytes that fail to decode are
//! rejected; bytes that decode to an object re-serializing to the genuine bytes are aliases (C10's business,
//! skipped and counted); everything else must make ClientLogin::finish return Err.  The genuine one is accepted.
use super::common::*;
use crate::adapter::{Blob, E};
use crate::api::Api;
use crate::flow::{self, o};
use crate::fw::{self, Cx, Report, Tier};
use crate::refmodel::{Kind, FT};
use crate::tape::Tape;
use rand::RngCore;
use serde_json::json;
use std::time::Instant;

struct World {
    p: flow::Params,
    genuine: flow::Login,
    donors: Vec<(&'static str, Vec<u8>)>,
}

fn world(api: &Api, setting_ix: usize, seed: u64) -> Result<World, flow::StepErr> {
    let p = setting(setting_ix);
    let mut t = Tape::seeded(seed, &format!("c04/{}", setting_ix));
    let er = |step: &'static str| move |e: E| flow::StepErr { step, e };
    let setup = api.setup(&mut t).map_err(er("setup"))?;
    let setup2 = api.setup(&mut t).map_err(er("setup"))?;
    let reg = flow::register(api, &mut t, &setup, &p.pw, &p.cid, o(&p.idu), o(&p.ids), None)?;
    let genuine = flow::login(api, &mut t, &setup, Some(&reg.file), &p.pw, &p.cid, o(&p.ctx), o(&p.idu), o(&p.ids), None)?;
    let mut donors = vec![];
    // same user, same request, a second server session (replayed request)
    let (ke2b, _) = api.slogin_start(&mut t, &Blob::n(&setup), Some(&Blob::n(&reg.file)), &Blob::n(&genuine.ke1), &p.cid, o(&p.ctx), o(&p.idu), o(&p.ids)).map_err(er("slogin_start"))?;
    donors.push(("same-request-second-server-session", ke2b));
    let other_session = flow::login(api, &mut t, &setup, Some(&reg.file), &p.pw, &p.cid, o(&p.ctx), o(&p.idu), o(&p.ids), None)?;
    donors.push(("other-session-same-user", other_session.ke2));
    let bob = flow::register(api, &mut t, &setup, b"bob's password", b"bob", o(&p.idu), o(&p.ids), None)?;
    let bl = flow::login(api, &mut t, &setup, Some(&bob.file), b"bob's password", b"bob", o(&p.ctx), o(&p.idu), o(&p.ids), None)?;
    donors.push(("other-user", bl.ke2));
    // another user's record served for OUR request
    let (ke2c, _) = api.slogin_start(&mut t, &Blob::n(&setup), Some(&Blob::n(&bob.file)), &Blob::n(&genuine.ke1), b"bob", o(&p.ctx), o(&p.idu), o(&p.ids)).map_err(er("slogin_start"))?;
    donors.push(("our-request-other-users-record", ke2c));
    let reg2 = flow::register(api, &mut t, &setup2, &p.pw, &p.cid, o(&p.idu), o(&p.ids), None)?;
    let (ke2d, _) = api.slogin_start(&mut t, &Blob::n(&setup2), Some(&Blob::n(&reg2.file)), &Blob::n(&genuine.ke1), &p.cid, o(&p.ctx), o(&p.idu), o(&p.ids)).map_err(er("slogin_start"))?;
    donors.push(("our-request-other-server", ke2d));
    let (ke2e, _) = api.slogin_start(&mut t, &Blob::n(&setup), None, &Blob::n(&genuine.ke1), &p.cid, o(&p.ctx), o(&p.idu), o(&p.ids)).map_err(er("slogin_start"))?;
    donors.push(("our-request-fake-record", ke2e));
    // same record, other context / credential id on the server side
    let (ke2f, _) = api.slogin_start(&mut t, &Blob::n(&setup), Some(&Blob::n(&reg.file)), &Blob::n(&genuine.ke1), &p.cid, Some(b"other context"), o(&p.idu), o(&p.ids)).map_err(er("slogin_start"))?;
    donors.push(("our-request-other-context", ke2f));
    let mut fresh = vec![0u8; genuine.ke2.len()];
    t.fill_bytes(&mut fresh);
    donors.push(("tape-bytes", fresh));
    Ok(World { p, genuine, donors })
}

fn explore(api: &Api, setting_ix: usize, chunk: usize, nchunks: usize, tier: Tier, seed: u64, cx: &mut Cx) {
    let sp = api.spec;
    let w = match world(api, setting_ix, seed) {
        Ok(w) => w,
        Err(e) => {
            cx.violate_case(&format!("honest-step/{}", e.step), format!("honest step {} failed: {:?}", e.step, e.e), json!({}));
            return;
        }
    };
    cx.context_done();
    let g = &w.genuine.ke2;
    let layout = sp.layout(Kind::CredResp);
    let p = &w.p;
    let mut judge = |cx: &mut Cx, m: &[u8], class: String, case: serde_json::Value| {
        if !cx.state(&m) {
            return;
        }
        cx.begin_case(case);
        cx.edges += 1;
        cx.path();
        if m == &g[..] {
            match api.login_finish(&Blob::n(&w.genuine.clogin), &p.pw, &Blob::n(m), o(&p.ctx), o(&p.idu), o(&p.ids), None) {
                Ok(_) => cx.outcome("accepted-genuine"),
                Err(e) => cx.violate("reject-genuine", format!("the genuine response is rejected: {:?}", e)),
            }
            return;
        }
        // alias check: does it decode to the genuine object?
        match api.decode(Kind::CredResp, m) {
            Err(_) => {
                cx.outcome("rejected-by-decoder");
                return;
            }
            Ok(r) if r == *g => {
                cx.outcome("alias-of-genuine(skipped)");
                return;
            }
            Ok(_) => {}
        }
        match api.login_finish(&Blob::n(&w.genuine.clogin), &p.pw, &Blob::n(m), o(&p.ctx), o(&p.idu), o(&p.ids), None) {
            Err(E::Panic(msg)) => cx.violate("panic", msg),
            Err(E::InvalidLogin) => cx.outcome("rejected-InvalidLoginError"),
            Err(_) => cx.outcome("rejected-other-error"),
            Ok(_) => {
                cx.outcome("ACCEPTED-ALTERED");
                cx.violate(&format!("ACCEPTED/{}", class), format!("client login finish succeeds on a response that differs from the genuine one ({})", class));
            }
        }
    };
    if chunk == 0 {
        judge(cx, g, "genuine".into(), json!({"action": "none (genuine)"}));
        // field splices and whole-response swaps
        for (dn, d) in &w.donors {
            if *dn == "same-request-second-server-session" || *dn == "our-request-other-server" {
                // these are themselves genuine responses to THIS client's request (a second server session on the
                // replayed request; another server at which the same password is registered): acceptance is correct
                // and demanded, with a session key different from the first session's.  Only mixtures are forgeries.
                cx.begin_case(json!({"action": "whole response of another genuine server session for our request", "donor": dn}));
                cx.state(&d);
                cx.edges += 1;
                cx.path();
                match api.login_finish(&Blob::n(&w.genuine.clogin), &p.pw, &Blob::n(d), o(&p.ctx), o(&p.idu), o(&p.ids), None) {
                    Ok((_, sk, _, _)) => {
                        if sk == w.genuine.sk_client {
                            cx.violate("same-key-for-two-server-sessions", "two different server sessions on one request give the client the same session key".into());
                        }
                        cx.outcome("accepted-other-genuine-session");
                    }
                    Err(e) => cx.violate(&format!("reject-genuine/{}", dn), format!("a genuine response to this client's request is rejected: {:?}", e)),
                }
            } else {
                judge(cx, d, format!("whole/{}", dn), json!({"action": "replace whole response", "donor": dn}));
            }
            if d.len() != g.len() {
                continue;
            }
            for f in &layout {
                let mut m = g.clone();
                m[f.range()].copy_from_slice(f.of(d));
                judge(cx, &m, format!("splice/{}/{}", f.name, dn), json!({"action": "splice field", "field": f.name, "donor": dn}));
            }
            // all pairs of fields from the donor
            for i in 0..layout.len() {
                for j in i + 1..layout.len() {
                    let mut m = g.clone();
                    m[layout[i].range()].copy_from_slice(layout[i].of(d));
                    m[layout[j].range()].copy_from_slice(layout[j].of(d));
                    judge(cx, &m, format!("splice2/{}+{}/{}", layout[i].name, layout[j].name, dn), json!({"action": "splice two fields", "fields": [layout[i].name, layout[j].name], "donor": dn}));
                }
            }
        }
        // reflected value: the evaluation element replaced by our own blinded element (where the lengths agree)
        let ev = sp.field(Kind::CredResp, "evaluated");
        let mut m = g.clone();
        m[ev.range()].copy_from_slice(&w.genuine.ke1[..ev.len]);
        judge(cx, &m, "reflected-blinded-element".into(), json!({"action": "evaluation := our blinded element"}));
    }
    // byte substitutions, this chunk's offsets
    for off in (0..g.len()).filter(|o| o % nchunks == chunk) {
        let f = layout.iter().find(|f| f.range().contains(&off)).unwrap();
        let lead = matches!(f.ty, FT::OprfElem | FT::KePk) && (off == f.start || off == f.start + f.len - 1);
        let vals: Vec<u8> = if tier.thorough() || lead { (0..=255u8).filter(|v| *v != g[off]).collect() } else { vec![g[off] ^ 1, g[off] ^ 0x80] };
        for v in vals {
            let mut m = g.clone();
            m[off] = v;
            judge(cx, &m, format!("setbyte/{}", f.name), json!({"action": "set byte", "offset": off, "value": v, "field": f.name}));
        }
    }
    // pairs of positions of the server MAC altered together, by a common XOR mask or by +1/-1: a tag comparison that
    // folds the per-byte (or per-word) differences with ^ or + instead of | cancels exactly these.  quick: all pairs at
    // a distance that is a multiple of 4 x {^01, +1/-1}; thorough: all pairs x {^01, ^80, ^ff, +1/-1}
    let mac = sp.field(Kind::CredResp, "server_mac");
    for i in (0..mac.len).filter(|i| i % nchunks == chunk) {
        for j in i + 1..mac.len {
            if !tier.thorough() && (j - i) % 4 != 0 {
                continue;
            }
            let masks: &[u8] = if tier.thorough() { &[0x01, 0x80, 0xff] } else { &[0x01] };
            for d in masks {
                let mut m = g.clone();
                m[mac.start + i] ^= d;
                m[mac.start + j] ^= d;
                judge(cx, &m, "pairsub/server_mac".into(), json!({"action": "xor two MAC bytes", "offsets": [mac.start + i, mac.start + j], "mask": d}));
            }
            let mut m = g.clone();
            m[mac.start + i] = m[mac.start + i].wrapping_add(1);
            m[mac.start + j] = m[mac.start + j].wrapping_sub(1);
            judge(cx, &m, "pairsub/server_mac".into(), json!({"action": "+1/-1 on two MAC bytes", "offsets": [mac.start + i, mac.start + j]}));
        }
    }
    cx.depth(1);
    if chunk == 0 {
        cx.sample(json!({"suite": api.name(), "setting": p.describe(), "genuine_response": hex::encode(g), "donors": w.donors.iter().map(|d| d.0).collect::<Vec<_>>()}));
    }
}

/// value-conditional states: sessions whose genuine server MAC STARTS or ENDS with a zero byte (1 session in 256 each),
/// found by running logins on generators 0, 1, 2, ... until one comes up; on them every substitution of the first two
/// and last two MAC bytes must be refused (a comparison that strips leading zeros / stops at a NUL compares less)
fn zero_edge_macs(api: &Api, seed: u64, cx: &mut Cx) {
    let sp = api.spec;
    let p = setting(0);
    let mut t = Tape::seeded(seed, "c04/zero-edge");
    let base = (|| -> Result<_, flow::StepErr> {
        let setup = api.setup(&mut t).map_err(|e| flow::StepErr { step: "setup", e })?;
        let reg = flow::register(api, &mut t, &setup, &p.pw, &p.cid, o(&p.idu), o(&p.ids), None)?;
        Ok((setup, reg))
    })();
    let (setup, reg) = match base {
        Ok(x) => x,
        Err(e) => {
            cx.violate_case(&format!("honest-step/{}", e.step), format!("{:?}", e.e), json!({}));
            return;
        }
    };
    cx.context_done();
    let mac = sp.field(Kind::CredResp, "server_mac");
    let mut found: [Option<flow::Login>; 2] = [None, None];
    for i in 0..4096 {
        if found.iter().all(|f| f.is_some()) {
            break;
        }
        let mut lt = Tape::seeded(seed, &format!("c04/zero-edge/{}", i));
        if let Ok(l) = flow::login(api, &mut lt, &setup, Some(&reg.file), &p.pw, &p.cid, o(&p.ctx), o(&p.idu), o(&p.ids), None) {
            let m = mac.of(&l.ke2);
            if m[0] == 0 && found[0].is_none() {
                found[0] = Some(l.clone());
            }
            if m[m.len() - 1] == 0 && found[1].is_none() {
                found[1] = Some(l);
            }
        }
    }
    for (which, f) in ["server MAC starts with 00", "server MAC ends with 00"].iter().zip(found.iter()) {
        let l = match f {
            Some(l) => l,
            None => {
                cx.undetermined += 1;
                cx.outcome("zero-edge-session-not-found");
                continue;
            }
        };
        for off in [0usize, 1, mac.len - 2, mac.len - 1] {
            for v in 0..=255u8 {
                let mut m = l.ke2.clone();
                if m[mac.start + off] == v {
                    continue;
                }
                m[mac.start + off] = v;
                cx.begin_case(json!({"session": which, "action": "set MAC byte", "offset": off, "value": v}));
                if !cx.state(&(which, &m)) {
                    continue;
                }
                cx.edges += 1;
                cx.path();
                match api.login_finish(&Blob::n(&l.clogin), &p.pw, &Blob::n(&m), o(&p.ctx), o(&p.idu), o(&p.ids), None) {
                    Err(E::InvalidLogin) => cx.outcome("rejected-InvalidLoginError"),
                    Err(_) => cx.outcome("rejected-other-error"),
                    Ok(_) => {
                        cx.outcome("ACCEPTED-ALTERED");
                        cx.violate("ACCEPTED/zero-edge-mac", format!("client login finish succeeds on a response whose server MAC ({}) was altered at offset {}", which, off));
                    }
                }
            }
        }
    }
}

pub fn run(tier: Tier, seed: u64) -> i32 {
    let t0 = Instant::now();
    let nchunks = if tier.thorough() { 16 } else { 2 };
    let mut items = vec![];
    for api in all_apis() {
        for s in 0..2 {
            for c in 0..nchunks {
                items.push((api, s, c));
            }
        }
    }
    let mut tot = fw::run_items("C04", &items, |(a, _, _)| a.name().to_string(), |(api, s, c), cx| explore(api, *s, *c, nchunks, tier, seed, cx));
    let apis = all_apis();
    tot.merge(fw::run_items("C04", &apis, |a| a.name().to_string(), |api, cx| zero_edge_macs(api, seed, cx)));
    let rep = Report {
        property: "C04",
        tier,
        seed,
        rule: "mutation LTS rooted at the genuine credential response of an honest login (2 settings x 20 suites): every single-byte substitution of the stated set, every 1- and 2-field splice from 8 donor responses, whole-response swaps, reflected element; each mutant is one ClientLogin::finish transition".into(),
        bounds: json!({"suites": 20, "settings": 2, "depth": 1, "setbyte": if tier.thorough() {"every offset x all 255 other values"} else {"every offset x {^0x01,^0x80}; all 256 values of first/last byte of element fields"}, "mac_pair_substitutions": if tier.thorough() {"all position pairs x {^01,^80,^ff,+1/-1}"} else {"position pairs at distances divisible by 4 x {^01,+1/-1}"}, "zero_edge_macs": "sessions found on generators 0..4095 whose genuine server MAC starts / ends with 00: all substitutions of its first two and last two bytes", "donors": 8, "splices": "all single fields and all pairs of fields per donor"}),
        assumptions: vec!["a mutant that decodes to the genuine object is an alias (C10), not an altered response".into()],
        exhaustive: true,
        crosscheck: json!(null),
    };
    fw::finish(rep, tot, t0)
}
