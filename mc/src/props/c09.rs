//! C09 - byte-exact conformance to RFC 9807 / RFC 9497.
//! The honest flow (and a no-record login) is executed step by step on the implementation and, in lock-step, by
//! the reference model.  For each transition the model computes the expected output from the inputs and the
//! random choices actually made; those are read from witnesses inside the outputs (blind and ephemeral secret from the
//! client states, seed and keys from the setup, nonces and ephemeral public keys from the messages); the server's
//! response is predicted from the client's view of the three DH values, so nothing is assumed about how, in which order
//! or in what chunks the implementation consumes its generator (only the unobservable fake masking key is searched for
//! among the slices of what that call drew, and left unjudged if not found).
use super::common::*;
use crate::adapter::{Blob, E};
use crate::alphabet::Bytes;
use crate::api::Api;
use crate::flow::o;
use crate::fw::{self, Cx, Report, Tier};
use crate::refmodel::{cat, Ids, Spec, NN};
use crate::tape::Tape;
use serde_json::json;
use std::time::Instant;

/// all injective assignments of `lens.len()` roles to draw indices of matching length; later draws first
pub fn assignments(draws: &[Bytes], lens: &[usize]) -> Vec<Vec<usize>> {
    fn rec(draws: &[Bytes], lens: &[usize], cur: &mut Vec<usize>, out: &mut Vec<Vec<usize>>) {
        if cur.len() == lens.len() {
            out.push(cur.clone());
            return;
        }
        let want = lens[cur.len()];
        for i in 0..draws.len() {
            if draws[i].len() == want && !cur.contains(&i) {
                cur.push(i);
                rec(draws, lens, cur, out);
                cur.pop();
            }
        }
    }
    let mut out = vec![];
    rec(draws, lens, &mut vec![], &mut out);
    // prefer assignments in increasing draw order using the last draws (the measured pattern), then the rest
    out.sort_by_key(|a| {
        let increasing = a.windows(2).all(|w| w[0] < w[1]);
        let tail: usize = a.iter().map(|i| draws.len() - i).sum();
        (!increasing, tail)
    });
    out
}

pub fn ksf_fn(family: &str, id: Option<u32>) -> Box<dyn Fn(&[u8]) -> Vec<u8>> {
    match family {
        "identity" => Box::new(|x: &[u8]| x.to_vec()),
        "probe" => {
            let id = id.unwrap_or(0);
            Box::new(move |x: &[u8]| crate::refmodel::probe_ksf(id, x))
        }
        "unit" => Box::new(|x: &[u8]| crate::refmodel::probe_ksf(7, x)),
        "argon2" => {
            let id = id.unwrap_or(0);
            Box::new(move |x: &[u8]| {
                let a = argon2::Argon2::new(argon2::Algorithm::Argon2id, argon2::Version::V0x13, crate::adapter::argon2_params(id));
                let mut out = vec![0u8; x.len()];
                a.hash_password_into(x, &[0u8; argon2::RECOMMENDED_SALT_LEN], &mut out).expect("argon2");
                out
            })
        }
        _ => panic!("ksf family"),
    }
}

pub struct Obs<'a> {
    cx: &'a mut Cx,
    pub compared: u64,
    pub mismatches: u64,
}
impl<'a> Obs<'a> {
    pub fn eq(&mut self, step: &str, what: &str, got: &[u8], exp: &[u8]) -> bool {
        self.compared += 1;
        if got != exp {
            self.mismatches += 1;
            let first = got.iter().zip(exp).position(|(a, b)| a != b).unwrap_or(got.len().min(exp.len()));
            self.cx.violate(
                &format!("{}/{}", step, what),
                format!("{} of step {} differs from the RFC model: {} bytes vs {} expected, first difference at offset {} (got {} exp {})", what, step, got.len(), exp.len(), first, hex::encode(&got[first.min(got.len())..got.len().min(first + 8)]), hex::encode(&exp[first.min(exp.len())..exp.len().min(first + 8)])),
            );
            false
        } else {
            true
        }
    }
}

fn fail(cx: &mut Cx, step: &str, e: &E) {
    cx.outcome("honest-step-failed");
    cx.violate(&format!("{}/error", step), format!("honest step {} failed with {:?}, the specification defines a result", step, e));
}

/// one flow in lock-step; returns number of observations compared
pub fn lockstep(api: &Api, it: &InTuple, seed: u64, cx: &mut Cx) {
    let sp: &Spec = api.spec;
    let ksf = ksf_fn(api.s.family(), it.p.ksf);
    let mut t = Tape::seeded(seed, &format!("c09/{}", it.tape));
    let p = &it.p;
    let mut ob = Obs { cx, compared: 0, mismatches: 0 };
    // Every random choice is read from a WITNESS in the outputs themselves (the seed and keys inside the setup, the
    // blind and ephemeral secret inside the client states, the nonces and ephemeral public keys inside the messages),
    // never from an assumption about how or in which order the implementation consumes its generator.  Whether those
    // values really come from the generator is C17's business; the RFC does not prescribe how a key pair is sampled.
    // ---- setup
    let setup = match api.setup(&mut t) {
        Ok(s) => s,
        Err(e) => return fail(ob.cx, "setup", &e),
    };
    let (nh, nsk, npk, nok, noe) = (sp.nh(), sp.nsk(), sp.npk(), sp.nok(), sp.noe());
    if setup.len() != nh + 2 * nsk {
        ob.cx.violate("setup/length", format!("server setup has {} bytes, expected {}", setup.len(), nh + 2 * nsk));
        return;
    }
    let (seed_b, ssk, fsk) = (setup[..nh].to_vec(), setup[nh..nh + nsk].to_vec(), setup[nh + nsk..].to_vec());
    ob.compared += 1;
    if !sp.ke_g().scalar_valid(&ssk) || !sp.ke_g().scalar_valid(&fsk) {
        ob.cx.violate("setup/keys", "a private key inside the server setup is not a valid non-zero scalar of the key-exchange group".into());
        return;
    }
    let spk = sp.ke.pubkey(&ssk);
    let fpk = sp.ke.pubkey(&fsk);
    match api.setup_pk(&Blob::n(&setup)) {
        Ok(pk) => {
            ob.eq("setup", "public key", &pk, &spk);
        }
        Err(e) => return fail(ob.cx, "setup_pk", &e),
    }
    match api.setup_sk(&Blob::n(&setup)) {
        Ok(sk) => {
            ob.eq("setup", "private key returned by keypair().private()", &sk, &ssk);
        }
        Err(e) => return fail(ob.cx, "setup_sk", &e),
    }
    let ids_v: Option<Vec<u8>> = if it.ids_is_server_pk { Some(spk.clone()) } else { p.ids.clone() };
    let ids_ = Ids { client: o(&p.idu), server: ids_v.as_deref() };
    // ---- registration
    let (req, creg) = match api.reg_start(&mut t, &p.pw) {
        Ok(x) => x,
        Err(e) => return fail(ob.cx, "reg_start", &e),
    };
    if creg.len() != nok + noe {
        ob.cx.violate("reg_start/length", format!("client registration state has {} bytes, expected {}", creg.len(), nok + noe));
        return;
    }
    let blind = creg[..nok].to_vec();
    if !sp.oprf_g().scalar_valid(&blind) {
        ob.cx.violate("reg_start/blind", "the blind in the client registration state is not a valid non-zero scalar".into());
        return;
    }
    ob.eq("reg_start", "registration request", &req, &sp.oprf.blind(&p.pw, &blind));
    ob.eq("reg_start", "client registration state", &creg, &cat(&[&blind, &req]));
    let resp = match api.sreg_start(&Blob::n(&setup), &Blob::n(&req), &p.cid) {
        Ok(x) => x,
        Err(e) => return fail(ob.cx, "sreg_start", &e),
    };
    ob.eq("sreg_start", "registration response", &resp, &sp.registration_response(&seed_b, &p.cid, &spk, &req));
    let (upload, export, spk_seen) = match api.reg_finish(&mut t, &Blob::n(&creg), &p.pw, &Blob::n(&resp), o(&p.idu), ids_v.as_deref(), p.ksf) {
        Ok(x) => x,
        Err(e) => return fail(ob.cx, "reg_finish", &e),
    };
    if upload.len() != npk + nh + NN + nh {
        ob.cx.violate("reg_finish/length", format!("registration upload has {} bytes, expected {}", upload.len(), npk + 2 * nh + NN));
        return;
    }
    let (rpwd, _) = sp.randomized_pwd(&p.pw, &blind, &resp[..noe.min(resp.len())], &*ksf);
    // witness: the envelope nonce on the wire
    let env_nonce = upload[npk + nh..npk + nh + NN].to_vec();
    let st = sp.store(&rpwd, &spk, &ids_, &env_nonce);
    ob.eq("reg_finish", "registration upload", &upload, &sp.record(&st));
    ob.eq("reg_finish", "export key", &export, &st.export_key);
    ob.eq("reg_finish", "server public key", &spk_seen, &spk);
    let file = match api.sreg_finish(&Blob::n(&upload)) {
        Ok(x) => x,
        Err(e) => return fail(ob.cx, "sreg_finish", &e),
    };
    ob.eq("sreg_finish", "password file", &file, &upload);
    // ---- login
    t.take_log();
    let (ke1, clogin) = match api.login_start(&mut t, &p.pw) {
        Ok(x) => x,
        Err(e) => return fail(ob.cx, "login_start", &e),
    };
    let login_start_draws: Vec<u8> = t.take_draws().concat();
    if clogin.len() != nok + noe + NN + npk + nsk + NN || ke1.len() != noe + NN + npk {
        ob.cx.violate("login_start/length", format!("client login state has {} bytes, KE1 {}", clogin.len(), ke1.len()));
        return;
    }
    let lblind = clogin[..nok].to_vec();
    if !sp.oprf_g().scalar_valid(&lblind) {
        ob.cx.violate("login_start/blind", "the blind in the client login state is not a valid non-zero scalar".into());
        return;
    }
    // witnesses: the ephemeral secret and the nonce inside the client state
    let cesk = clogin[nok + noe + NN + npk..nok + noe + NN + npk + nsk].to_vec();
    let cnonce = clogin[nok + noe + NN + npk + nsk..].to_vec();
    if !sp.ke_g().scalar_valid(&cesk) {
        ob.cx.violate("login_start/ephemeral-key", "the client's ephemeral private key is not a valid non-zero scalar".into());
        return;
    }
    // RFC 9807 6.4.3: the key share is DeriveDiffieHellmanKeyPair(seed) for a random seed.  Which generator bytes are the
    // seed is the implementation's business (no assumption on order or request sizes): it has to be SOME contiguous
    // Nseed-byte window of what this call drew.
    let ns = sp.nseed();
    if login_start_draws.len() <= 4096 {
        ob.compared += 1;
        if !(0..(login_start_draws.len() + 1).saturating_sub(ns)).any(|o| sp.derive_dh_sk(&login_start_draws[o..o + ns]) == cesk) {
            ob.mismatches += 1;
            ob.cx.violate("login_start/keyshare-derivation", format!("the client's key share is not DeriveDiffieHellmanKeyPair(seed) for any {}-byte window of the {} generator bytes this call drew", ns, login_start_draws.len()));
        }
    }
    ob.eq("login_start", "KE1", &ke1, &cat(&[&sp.oprf.blind(&p.pw, &lblind), &cnonce, &sp.ke.pubkey(&cesk)]));
    ob.eq("login_start", "client login state", &clogin, &cat(&[&lblind, &ke1, &cesk, &cnonce]));
    let ctx = p.ctx.clone().unwrap_or_default();
    let lay2 = sp.layout(crate::refmodel::Kind::CredResp);
    // The server's ephemeral secret is not observable, so the expected response is computed from the CLIENT's view of
    // the three Diffie-Hellman values (RFC 9807 6.4.4: both views are equal); witnesses: masking nonce, server nonce and
    // server ephemeral public key as they appear in the response.
    let expect_ke2 = |ob: &mut Obs, step: &str, ke2: &[u8], slogin: &[u8], rec_pk: &[u8], rec_sk: &[u8], masking_key: Option<&[u8]>, envelope: &[u8]| -> Option<Vec<u8>> {
        if ke2.len() != sp.len_of(crate::refmodel::Kind::CredResp) {
            ob.cx.violate(&format!("{}/length", step), format!("credential response has {} bytes", ke2.len()));
            return None;
        }
        let (mn, sn, epk_s) = (lay2[1].of(ke2), lay2[3].of(ke2), lay2[4].of(ke2));
        if !sp.ke_g().elem_valid(epk_s) {
            ob.cx.violate(&format!("{}/ephemeral-key", step), "the server's ephemeral public key is not a valid group element".into());
            return None;
        }
        let evaluated = sp.evaluate(&seed_b, &p.cid, &ke1[..noe]);
        ob.eq(step, "OPRF evaluation", lay2[0].of(ke2), &evaluated);
        let masked = match masking_key {
            Some(mk) => {
                let m = sp.masked_response(mk, mn, &spk, envelope);
                ob.eq(step, "masked response", lay2[2].of(ke2), &m);
                m
            }
            None => lay2[2].of(ke2).to_vec(),
        };
        let cred_resp = cat(&[&evaluated, mn, &masked]);
        let idc = p.idu.clone().unwrap_or_else(|| rec_pk.to_vec());
        let idsv = ids_v.clone().unwrap_or_else(|| spk.clone());
        let pre = sp.preamble(&ctx, &idc, &ke1, &idsv, &cred_resp, sn, epk_s);
        let ikm = cat(&[&sp.ke.dh(&cesk, epk_s), &sp.ke.dh(&cesk, &spk), &sp.ke.dh(rec_sk, epk_s)]);
        let (km2, km3, session_key, _) = sp.derive_keys(&ikm, &pre);
        let th = sp.h().hash(&[&pre]);
        let mac_s = crate::refmodel::hmac(sp.h(), &km2, &[&th]);
        ob.eq(step, "server MAC", lay2[5].of(ke2), &mac_s);
        let th2 = sp.h().hash(&[&pre, &mac_s]);
        let expected_client_mac = crate::refmodel::hmac(sp.h(), &km3, &[&th2]);
        let a = cat(&[&km3, &th2, &session_key]);
        let b = cat(&[&expected_client_mac, &session_key]);
        if slogin != &b[..] {
            ob.eq(step, "server login state", slogin, &a);
        } else {
            ob.compared += 1;
        }
        Some(session_key)
    };
    // server, record present
    t.take_log();
    let (ke2, slogin) = match api.slogin_start(&mut t, &Blob::n(&setup), Some(&Blob::n(&file)), &Blob::n(&ke1), &p.cid, o(&p.ctx), o(&p.idu), ids_v.as_deref()) {
        Ok(x) => x,
        Err(e) => return fail(ob.cx, "slogin_start", &e),
    };
    let slogin_start_draws: Vec<u8> = t.take_draws().concat();
    if it.tape == 0 && slogin_start_draws.len() <= 4096 && ke2.len() == sp.len_of(crate::refmodel::Kind::CredResp) {
        // same for the server's key share (only its public half is observable); first tape of every input tuple
        let epk = lay2[4].of(&ke2);
        ob.compared += 1;
        if !(0..(slogin_start_draws.len() + 1).saturating_sub(ns)).any(|o| sp.ke.pubkey(&sp.derive_dh_sk(&slogin_start_draws[o..o + ns])) == epk) {
            ob.mismatches += 1;
            ob.cx.violate("slogin_start/keyshare-derivation", format!("the server's key share is not DeriveDiffieHellmanKeyPair(seed) for any {}-byte window of the {} generator bytes this call drew", ns, slogin_start_draws.len()));
        }
    }
    let sk_model = expect_ke2(&mut ob, "slogin_start", &ke2, &slogin, &st.client_pk, &st.client_sk, Some(&st.masking_key), &st.envelope);
    // client finish
    let (ke3, sk_c, export2, spk2) = match api.login_finish(&Blob::n(&clogin), &p.pw, &Blob::n(&ke2), o(&p.ctx), o(&p.idu), ids_v.as_deref(), p.ksf) {
        Ok(x) => x,
        Err(e) => return fail(ob.cx, "login_finish", &e),
    };
    match sp.ke3(&p.pw, &lblind, &cesk, &ke1, &ke2, &ctx, &ids_, &*ksf) {
        Ok((m3, msk, mek, mspk)) => {
            ob.eq("login_finish", "KE3", &ke3, &m3);
            ob.eq("login_finish", "session key", &sk_c, &msk);
            ob.eq("login_finish", "export key", &export2, &mek);
            ob.eq("login_finish", "server public key", &spk2, &mspk);
        }
        Err(why) => ob.cx.violate("login_finish/accepts", format!("the implementation accepts a response the RFC model rejects ({})", why)),
    }
    match api.slogin_finish(&Blob::n(&slogin), &Blob::n(&ke3)) {
        Ok(sk_s) => {
            if let Some(k) = &sk_model {
                ob.eq("slogin_finish", "session key", &sk_s, k);
            }
        }
        Err(e) => return fail(ob.cx, "slogin_finish", &e),
    }
    // server, record absent: the record is (fake public key, a random masking key, all-zero envelope)
    t.take_log();
    let (fke2, fst) = match api.slogin_start(&mut t, &Blob::n(&setup), None, &Blob::n(&ke1), &p.cid, o(&p.ctx), o(&p.idu), ids_v.as_deref()) {
        Ok(x) => x,
        Err(e) => return fail(ob.cx, "slogin_start(no record)", &e),
    };
    let d = t.take_draws();
    let zero_env = vec![0u8; NN + nh];
    // the fake masking key is not observable: identify it among the contiguous nh-byte slices of what this call drew
    // (any offset inside any draw); if it cannot be identified the masked response is left unjudged
    let mut fake_mk: Option<Vec<u8>> = None;
    if fke2.len() == sp.len_of(crate::refmodel::Kind::CredResp) {
        'outer: for dr in d.iter().filter(|x| x.len() >= nh && x.len() <= 1024) {
            for off in 0..=dr.len() - nh {
                let cand = &dr[off..off + nh];
                if sp.masked_response(cand, lay2[1].of(&fke2), &spk, &zero_env) == lay2[2].of(&fke2) {
                    fake_mk = Some(cand.to_vec());
                    break 'outer;
                }
            }
        }
    }
    if fake_mk.is_none() {
        ob.cx.undetermined += 1;
        ob.cx.outcome("fake-masking-key-unidentified");
    }
    let _ = expect_ke2(&mut ob, "slogin_start(no record)", &fke2, &fst, &fpk, &fsk, fake_mk.as_deref(), &zero_env);
    let (c, m) = (ob.compared, ob.mismatches);
    cx.add("model_observations_compared", c);
    cx.outcome(if m == 0 { "conforms" } else { "MISMATCH" });
    cx.path();
    cx.edges += 10;
    cx.depth(10);
}

pub fn run(tier: Tier, seed: u64) -> i32 {
    let t0 = Instant::now();
    let (nv, nc) = crate::vectors::require();
    let tuples = input_tuples(tier);
    let mut items: Vec<(Api, InTuple)> = vec![];
    for api in all_apis() {
        for t in &tuples {
            items.push((api, t.clone()));
        }
    }
    // the other KSF families: probe KSF (all 20 suites) and Argon2 (3 suites), on the <=1-deviation tuples / default
    let small: Vec<InTuple> = tuples.iter().filter(|t| t.devs <= 1 && !t.boundary && t.p.pw.len() < 1000).cloned().collect();
    for api in apis_of(crate::adapter::probe::suites()) {
        for t in &small {
            for k in [None, Some(2u32)] {
                let mut t2 = t.clone();
                t2.p.ksf = k;
                items.push((api, t2));
            }
        }
    }
    for api in apis_of(crate::adapter::argon::suites()) {
        for k in [None, Some(1u32)] {
            let mut t2 = tuples[0].clone();
            t2.p.ksf = k;
            items.push((api, t2));
        }
    }
    // a zero-sized user-defined stretching function
    for api in apis_of(crate::adapter::unit::suites()) {
        for k in [None, Some(0u32)] {
            let mut t2 = tuples[0].clone();
            t2.p.ksf = k;
            items.push((api, t2));
        }
    }
    let tot = fw::run_items("C09", &items, |(a, _)| format!("{}:{}", a.s.family(), a.name()), |(api, it), cx| {
        cx.begin_case(it.describe());
        cx.state(&(api.s.family(), it));
        lockstep(api, it, seed, cx);
        cx.sample(json!({"suite": api.name(), "family": api.s.family(), "input": it.describe(), "steps": ["setup", "reg_start", "sreg_start", "reg_finish", "sreg_finish", "login_start", "slogin_start", "login_finish", "slogin_finish", "slogin_start(no record)"]}));
    });
    let rep = Report {
        property: "C09",
        tier,
        seed,
        rule: "lock-step exploration: every input tuple with <=k deviations from the default (plus the boundary product in the thorough tier) x 20 suites is executed on the implementation and on the independent RFC 9807/9497 reference model; every message, state and key is compared byte-for-byte; random choices are witnessed, not assumed".into(),
        bounds: json!({"suites": 20, "input_tuples_per_suite": tuples.len(), "deviation_bound": if tier.thorough() {3} else {2}, "ksf_families": {"identity": "all tuples", "probe": "tuples with <=1 deviation x {default, id 2}", "argon2": "default tuple x {default, cost 1} on 3 suites"},
            "rfc_vectors_reproduced_by_model": nv, "rfc_vector_values_compared": nc}),
        assumptions: vec!["the reference model is bound to the specification by reproducing all 9 RFC 9807 test vectors at start-up".into(), "for suites the RFC does not spell out: Nseed := Nsk, DeriveDiffieHellmanKeyPair uses the OPRF suite's hash and context string over the KE group's scalar field (as property C09 states)".into()],
        exhaustive: true,
        crosscheck: json!(null),
    };
    fw::finish(rep, tot, t0)
}
