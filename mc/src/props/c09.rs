//! C09 - byte-exact conformance to RFC 9807 / RFC 9497.
//! The honest flow (and a no-record login) is executed step by step on the implementation and, in lock-step, by
//! the reference model.  For each transition the model computes the expected output from the inputs and the
//! random choices actually made; those are read from witnesses: the blind from the serialized client state, and
//! nonces / seeds / fake masking key by searching all injective assignments of roles to the recorded tape draws
//! of that call (no draw order is assumed; unused draws are allowed).
use super::common::*;
use crate::adapter::{Blob, E};
use crate::alphabet::Bytes;
use crate::api::Api;
use crate::flow::o;
use crate::fw::{self, Cx, Report, Tier};
use crate::refmodel::{cat, Ids, Ke2Out, Spec, NN};
use crate::tape::Tape;
use serde_json::json;
use std::time::Instant;

/// all injective assignments of `lens.len()` roles to draw indices of matching length; later draws first
pub fn assignments(draws: &[Bytes], lens: &[usize]) -> Vec<Vec<usize>> {
    fn rec(draws: &[Bytes], lens: &[usize], cur: &mut Vec<usize>, out: &mut Vec<Vec<usize>>) {
        if cur.len() == lens.len() {
            out.push(cur.clone());
            return;
        }
        let want = lens[cur.len()];
        for i in 0..draws.len() {
            if draws[i].len() == want && !cur.contains(&i) {
                cur.push(i);
                rec(draws, lens, cur, out);
                cur.pop();
            }
        }
    }
    let mut out = vec![];
    rec(draws, lens, &mut vec![], &mut out);
    // prefer assignments in increasing draw order using the last draws (the measured pattern), then the rest
    out.sort_by_key(|a| {
        let increasing = a.windows(2).all(|w| w[0] < w[1]);
        let tail: usize = a.iter().map(|i| draws.len() - i).sum();
        (!increasing, tail)
    });
    out
}

pub fn ksf_fn(family: &str, id: Option<u32>) -> Box<dyn Fn(&[u8]) -> Vec<u8>> {
    match family {
        "identity" => Box::new(|x: &[u8]| x.to_vec()),
        "probe" => {
            let id = id.unwrap_or(0);
            Box::new(move |x: &[u8]| crate::refmodel::probe_ksf(id, x))
        }
        "argon2" => {
            let id = id.unwrap_or(0);
            Box::new(move |x: &[u8]| {
                let a = argon2::Argon2::new(argon2::Algorithm::Argon2id, argon2::Version::V0x13, crate::adapter::argon2_params(id));
                let mut out = vec![0u8; x.len()];
                a.hash_password_into(x, &[0u8; argon2::RECOMMENDED_SALT_LEN], &mut out).expect("argon2");
                out
            })
        }
        _ => panic!("ksf family"),
    }
}

pub struct Obs<'a> {
    cx: &'a mut Cx,
    pub compared: u64,
    pub mismatches: u64,
}
impl<'a> Obs<'a> {
    pub fn eq(&mut self, step: &str, what: &str, got: &[u8], exp: &[u8]) -> bool {
        self.compared += 1;
        if got != exp {
            self.mismatches += 1;
            let first = got.iter().zip(exp).position(|(a, b)| a != b).unwrap_or(got.len().min(exp.len()));
            self.cx.violate(
                &format!("{}/{}", step, what),
                format!("{} of step {} differs from the RFC model: {} bytes vs {} expected, first difference at offset {} (got {} exp {})", what, step, got.len(), exp.len(), first, hex::encode(&got[first.min(got.len())..got.len().min(first + 8)]), hex::encode(&exp[first.min(exp.len())..exp.len().min(first + 8)])),
            );
            false
        } else {
            true
        }
    }
}

fn fail(cx: &mut Cx, step: &str, e: &E) {
    cx.outcome("honest-step-failed");
    cx.violate(&format!("{}/error", step), format!("honest step {} failed with {:?}, the specification defines a result", step, e));
}

/// one flow in lock-step; returns number of observations compared
pub fn lockstep(api: &Api, it: &InTuple, seed: u64, cx: &mut Cx) {
    let sp: &Spec = api.spec;
    let ksf = ksf_fn(api.s.family(), it.p.ksf);
    let mut t = Tape::seeded(seed, &format!("c09/{}", it.tape));
    let p = &it.p;
    let mut ob = Obs { cx, compared: 0, mismatches: 0 };
    // ---- setup
    t.take_log();
    let setup = match api.setup(&mut t) {
        Ok(s) => s,
        Err(e) => return fail(ob.cx, "setup", &e),
    };
    let d = t.take_draws();
    let (nh, nsk, npk, nok, noe) = (sp.nh(), sp.nsk(), sp.npk(), sp.nok(), sp.noe());
    if setup.len() != nh + 2 * nsk {
        ob.cx.violate("setup/length", format!("server setup has {} bytes, expected {}", setup.len(), nh + 2 * nsk));
        return;
    }
    let mut found = None;
    for a in assignments(&d, &[nh, nsk, nsk]) {
        let (ssk, _) = sp.derive_dh_keypair(&d[a[1]]);
        let (fsk, _) = sp.derive_dh_keypair(&d[a[2]]);
        if setup == cat(&[&d[a[0]], &ssk, &fsk]) {
            found = Some((d[a[0]].clone(), ssk, fsk));
            break;
        }
    }
    ob.compared += 1;
    let (seed_b, ssk, fsk) = match found {
        Some(x) => x,
        None => {
            ob.cx.violate("setup/bytes", "server setup is not seed || DeriveDH(s1) || DeriveDH(s2) for any assignment of tape draws".into());
            // continue with the values the implementation holds, so that later steps are still compared
            (setup[..nh].to_vec(), setup[nh..nh + nsk].to_vec(), setup[nh + nsk..].to_vec())
        }
    };
    let spk = sp.ke.pubkey(&ssk);
    let fpk = sp.ke.pubkey(&fsk);
    match api.setup_pk(&Blob::n(&setup)) {
        Ok(pk) => {
            ob.eq("setup", "public key", &pk, &spk);
        }
        Err(e) => return fail(ob.cx, "setup_pk", &e),
    }
    let ids_v: Option<Vec<u8>> = if it.ids_is_server_pk { Some(spk.clone()) } else { p.ids.clone() };
    let ids_ = Ids { client: o(&p.idu), server: ids_v.as_deref() };
    // ---- registration
    let (req, creg) = match api.reg_start(&mut t, &p.pw) {
        Ok(x) => x,
        Err(e) => return fail(ob.cx, "reg_start", &e),
    };
    t.take_log();
    if creg.len() != nok + noe {
        ob.cx.violate("reg_start/length", format!("client registration state has {} bytes, expected {}", creg.len(), nok + noe));
        return;
    }
    let blind = creg[..nok].to_vec();
    if !sp.oprf_g().scalar_valid(&blind) {
        ob.cx.violate("reg_start/blind", "the blind in the client registration state is not a valid non-zero scalar".into());
        return;
    }
    ob.eq("reg_start", "registration request", &req, &sp.oprf.blind(&p.pw, &blind));
    ob.eq("reg_start", "client registration state", &creg, &cat(&[&blind, &req]));
    let resp = match api.sreg_start(&Blob::n(&setup), &Blob::n(&req), &p.cid) {
        Ok(x) => x,
        Err(e) => return fail(ob.cx, "sreg_start", &e),
    };
    ob.eq("sreg_start", "registration response", &resp, &sp.registration_response(&seed_b, &p.cid, &spk, &req));
    let (upload, export, spk_seen) = match api.reg_finish(&mut t, &Blob::n(&creg), &p.pw, &Blob::n(&resp), o(&p.idu), ids_v.as_deref(), p.ksf) {
        Ok(x) => x,
        Err(e) => return fail(ob.cx, "reg_finish", &e),
    };
    let d = t.take_draws();
    let (rpwd, _) = sp.randomized_pwd(&p.pw, &blind, &resp[..noe.min(resp.len())], &*ksf);
    let mut st = None;
    for a in assignments(&d, &[NN]) {
        let s = sp.store(&rpwd, &spk, &ids_, &d[a[0]]);
        if sp.record(&s) == upload {
            st = Some(s);
            break;
        }
    }
    ob.compared += 1;
    let st = match st {
        Some(s) => s,
        None => {
            // report against the envelope nonce the implementation put on the wire
            let nonce = if upload.len() >= npk + nh + NN { upload[npk + nh..npk + nh + NN].to_vec() } else { vec![0; NN] };
            let s = sp.store(&rpwd, &spk, &ids_, &nonce);
            let fresh = d.iter().any(|x| x == &nonce);
            ob.eq("reg_finish", if fresh { "registration upload" } else { "registration upload (envelope nonce is not a tape draw)" }, &upload, &sp.record(&s));
            s
        }
    };
    ob.eq("reg_finish", "export key", &export, &st.export_key);
    ob.eq("reg_finish", "server public key", &spk_seen, &spk);
    let file = match api.sreg_finish(&Blob::n(&upload)) {
        Ok(x) => x,
        Err(e) => return fail(ob.cx, "sreg_finish", &e),
    };
    ob.eq("sreg_finish", "password file", &file, &upload);
    // ---- login
    let (ke1, clogin) = match api.login_start(&mut t, &p.pw) {
        Ok(x) => x,
        Err(e) => return fail(ob.cx, "login_start", &e),
    };
    let d = t.take_draws();
    if clogin.len() != nok + noe + NN + npk + nsk + NN {
        ob.cx.violate("login_start/length", format!("client login state has {} bytes", clogin.len()));
        return;
    }
    let lblind = clogin[..nok].to_vec();
    if !sp.oprf_g().scalar_valid(&lblind) {
        ob.cx.violate("login_start/blind", "the blind in the client login state is not a valid non-zero scalar".into());
        return;
    }
    let mut c1 = None;
    for a in assignments(&d, &[nsk, NN]) {
        let (esk, epk) = sp.derive_dh_keypair(&d[a[0]]);
        let k = cat(&[&sp.oprf.blind(&p.pw, &lblind), &d[a[1]], &epk]);
        if k == ke1 {
            c1 = Some((esk, d[a[1]].clone(), k));
            break;
        }
    }
    ob.compared += 1;
    let (cesk, cnonce) = match c1 {
        Some((esk, n, _)) => (esk, n),
        None => {
            ob.cx.violate("login_start/KE1", "KE1 is not Blind(pw) || nonce || DeriveDH(seed).pk for any assignment of tape draws to (seed, nonce)".into());
            (clogin[nok + noe + NN + npk..nok + noe + NN + npk + nsk].to_vec(), clogin[nok + noe + NN + npk + nsk..].to_vec())
        }
    };
    ob.eq("login_start", "client login state", &clogin, &cat(&[&lblind, &ke1, &cesk, &cnonce]));
    let ctx = p.ctx.clone().unwrap_or_default();
    // server, record present
    let (ke2, slogin) = match api.slogin_start(&mut t, &Blob::n(&setup), Some(&Blob::n(&file)), &Blob::n(&ke1), &p.cid, o(&p.ctx), o(&p.idu), ids_v.as_deref()) {
        Ok(x) => x,
        Err(e) => return fail(ob.cx, "slogin_start", &e),
    };
    let d = t.take_draws();
    let mut k2: Option<Ke2Out> = None;
    for a in assignments(&d, &[NN, nsk, NN]) {
        let k = sp.ke2(&seed_b, &p.cid, &ssk, &spk, &st.client_pk, &st.masking_key, &st.envelope, &ke1, &ctx, &ids_, &d[a[0]], &d[a[2]], &d[a[1]]);
        if k.ke2 == ke2 {
            k2 = Some(k);
            break;
        }
    }
    ob.compared += 1;
    match &k2 {
        None => ob.cx.violate("slogin_start/KE2", "KE2 does not equal the RFC's GenerateKE2 for any assignment of tape draws to (masking nonce, key-share seed, server nonce)".into()),
        Some(k) => {
            let a = cat(&[&k.km3, &k.hashed_transcript_with_mac, &k.session_key]);
            let b = cat(&[&k.expected_client_mac, &k.session_key]);
            if slogin != b {
                ob.eq("slogin_start", "server login state", &slogin, &a);
            } else {
                ob.compared += 1;
            }
        }
    }
    // client finish
    let (ke3, sk_c, export2, spk2) = match api.login_finish(&Blob::n(&clogin), &p.pw, &Blob::n(&ke2), o(&p.ctx), o(&p.idu), ids_v.as_deref(), p.ksf) {
        Ok(x) => x,
        Err(e) => return fail(ob.cx, "login_finish", &e),
    };
    match sp.ke3(&p.pw, &lblind, &cesk, &ke1, &ke2, &ctx, &ids_, &*ksf) {
        Ok((m3, msk, mek, mspk)) => {
            ob.eq("login_finish", "KE3", &ke3, &m3);
            ob.eq("login_finish", "session key", &sk_c, &msk);
            ob.eq("login_finish", "export key", &export2, &mek);
            ob.eq("login_finish", "server public key", &spk2, &mspk);
        }
        Err(why) => ob.cx.violate("login_finish/accepts", format!("the implementation accepts a response the RFC model rejects ({})", why)),
    }
    match api.slogin_finish(&Blob::n(&slogin), &Blob::n(&ke3)) {
        Ok(sk_s) => {
            if let Some(k) = &k2 {
                ob.eq("slogin_finish", "session key", &sk_s, &k.session_key);
            }
        }
        Err(e) => return fail(ob.cx, "slogin_finish", &e),
    }
    // server, record absent
    let (fke2, fst) = match api.slogin_start(&mut t, &Blob::n(&setup), None, &Blob::n(&ke1), &p.cid, o(&p.ctx), o(&p.idu), ids_v.as_deref()) {
        Ok(x) => x,
        Err(e) => return fail(ob.cx, "slogin_start(no record)", &e),
    };
    let d = t.take_draws();
    let zero_env = vec![0u8; NN + nh];
    let mut fk: Option<Ke2Out> = None;
    for a in assignments(&d, &[nh, NN, nsk, NN]) {
        let k = sp.ke2(&seed_b, &p.cid, &ssk, &spk, &fpk, &d[a[0]], &zero_env, &ke1, &ctx, &ids_, &d[a[1]], &d[a[3]], &d[a[2]]);
        if k.ke2 == fke2 {
            fk = Some(k);
            break;
        }
    }
    ob.compared += 1;
    match &fk {
        None => ob.cx.violate("slogin_start(no record)/KE2", "the no-record KE2 does not equal the RFC's fake response for any assignment of tape draws to (masking key, masking nonce, key-share seed, server nonce)".into()),
        Some(k) => {
            let a = cat(&[&k.km3, &k.hashed_transcript_with_mac, &k.session_key]);
            let b = cat(&[&k.expected_client_mac, &k.session_key]);
            if fst != b {
                ob.eq("slogin_start(no record)", "server login state", &fst, &a);
            } else {
                ob.compared += 1;
            }
        }
    }
    let (c, m) = (ob.compared, ob.mismatches);
    cx.add("model_observations_compared", c);
    cx.outcome(if m == 0 { "conforms" } else { "MISMATCH" });
    cx.path();
    cx.edges += 10;
    cx.depth(10);
}

pub fn run(tier: Tier, seed: u64) -> i32 {
    let t0 = Instant::now();
    let (nv, nc) = crate::vectors::require();
    let tuples = input_tuples(tier);
    let mut items: Vec<(Api, InTuple)> = vec![];
    for api in all_apis() {
        for t in &tuples {
            items.push((api, t.clone()));
        }
    }
    // the other KSF families: probe KSF (all 20 suites) and Argon2 (3 suites), on the <=1-deviation tuples / default
    let small: Vec<InTuple> = tuples.iter().filter(|t| t.devs <= 1 && !t.boundary && t.p.pw.len() < 1000).cloned().collect();
    for api in apis_of(crate::adapter::probe::suites()) {
        for t in &small {
            for k in [None, Some(2u32)] {
                let mut t2 = t.clone();
                t2.p.ksf = k;
                items.push((api, t2));
            }
        }
    }
    for api in apis_of(crate::adapter::argon::suites()) {
        for k in [None, Some(1u32)] {
            let mut t2 = tuples[0].clone();
            t2.p.ksf = k;
            items.push((api, t2));
        }
    }
    let tot = fw::run_items("C09", &items, |(a, _)| format!("{}:{}", a.s.family(), a.name()), |(api, it), cx| {
        cx.begin_case(it.describe());
        cx.state(&(api.s.family(), it));
        lockstep(api, it, seed, cx);
        cx.sample(json!({"suite": api.name(), "family": api.s.family(), "input": it.describe(), "steps": ["setup", "reg_start", "sreg_start", "reg_finish", "sreg_finish", "login_start", "slogin_start", "login_finish", "slogin_finish", "slogin_start(no record)"]}));
    });
    let rep = Report {
        property: "C09",
        tier,
        seed,
        rule: "lock-step exploration: every input tuple with <=k deviations from the default (plus the boundary product in the thorough tier) x 20 suites is executed on the implementation and on the independent RFC 9807/9497 reference model; every message, state and key is compared byte-for-byte; random choices are witnessed, not assumed".into(),
        bounds: json!({"suites": 20, "input_tuples_per_suite": tuples.len(), "deviation_bound": if tier.thorough() {3} else {2}, "ksf_families": {"identity": "all tuples", "probe": "tuples with <=1 deviation x {default, id 2}", "argon2": "default tuple x {default, cost 1} on 3 suites"},
            "rfc_vectors_reproduced_by_model": nv, "rfc_vector_values_compared": nc}),
        assumptions: vec!["the reference model is bound to the specification by reproducing all 9 RFC 9807 test vectors at start-up".into(), "for suites the RFC does not spell out: Nseed := Nsk, DeriveDiffieHellmanKeyPair uses the OPRF suite's hash and context string over the KE group's scalar field (as property C09 states)".into()],
        exhaustive: true,
        crosscheck: json!(null),
    };
    fw::finish(rep, tot, t0)
}
