//! C14 - the OPRF is oblivious and keyed per credential.
//! Enumerated: registrations over pw in 4 x cid in 7 x OPRF seed in 2 x static key in 2 x blinding tape in 3
//! (336 per suite) and matching login requests.  Oracle over ALL pairs: masking keys are equal iff (pw, cid, seed)
//! are equal - in particular equal across blinding tapes and static keys, different across prefix-related ids;
//! request bytes differ whenever the blinding tape differs; the evaluation for a given request is the same through
//! registration start, login start with a record, login start without a record and under a different static key,
//! and equals the reference model's request * DeriveKeyPair(Expand(seed, cid || "OprfKey")).
use super::common::*;
use crate::adapter::Blob;
use crate::alphabet::{self as al, desc};
use crate::api::Api;
use crate::fw::{self, Cx, Report, Tier};
use crate::refmodel::Kind;
use crate::tape::Tape;
use serde_json::json;
use std::time::Instant;

struct RegRec {
    pw: usize,
    cid: usize,
    seed: usize,
    key: usize,
    tape: usize,
    req: Vec<u8>,
    masking_key: Vec<u8>,
}

fn explore(api: &Api, seed: u64, cx: &mut Cx) {
    let sp = api.spec;
    let mut t = Tape::seeded(seed, "c14/setups");
    let (a, b) = match (api.setup(&mut t), api.setup(&mut t)) {
        (Ok(a), Ok(b)) => (a, b),
        _ => {
            cx.violate_case("honest-step/error", "setup".into(), json!({}));
            return;
        }
    };
    let seedf = sp.field(Kind::Setup, "oprf_seed");
    let skf = sp.field(Kind::Setup, "server_sk");
    let base = [&a, &b];
    let setup_of = |si: usize, ki: usize| {
        let mut s = a.clone();
        s[seedf.range()].copy_from_slice(seedf.of(base[si]));
        s[skf.range()].copy_from_slice(skf.of(base[ki]));
        s
    };
    let pws: Vec<Vec<u8>> = vec![b"correct horse".to_vec(), b"correct horsf".to_vec(), vec![], vec![b'x'; 256]];
    let cids = al::cids_full();
    let mkf = sp.field(Kind::File, "masking_key");
    cx.context_done();
    let mut recs: Vec<RegRec> = vec![];
    for (pi, pw) in pws.iter().enumerate() {
        for (ci, cid) in cids.iter().enumerate() {
            for si in 0..2 {
                for ki in 0..2 {
                    let setup = setup_of(si, ki);
                    for ti in 0..3 {
                        cx.begin_case(json!({"pw": desc(pw), "cid": desc(cid), "seed": si, "static_key": ki, "blinding_tape": ti}));
                        cx.state(&(pi, ci, si, ki, ti));
                        cx.path();
                        let mut bt = Tape::seeded(seed, &format!("c14/blind/{}", ti));
                        let r = match crate::flow::register(api, &mut bt, &setup, pw, cid, None, None, None) {
                            Ok(r) => r,
                            Err(e) => {
                                cx.violate("honest-step/error", format!("{} {:?}", e.step, e.e));
                                continue;
                            }
                        };
                        cx.edges += 4;
                        // evaluation = model, and the same through the login paths and under the other static key
                        let ev_model = sp.evaluate(seedf.of(&setup), cid, &r.req);
                        let noe = sp.noe();
                        if r.resp[..noe] != ev_model[..] {
                            cx.violate("evaluation/registration-differs-from-model", "registration evaluation is not request * DeriveKeyPair(Expand(seed, cid||OprfKey))".into());
                        }
                        if ti == 0 {
                            let (ke1, _) = match api.login_start(&mut bt, pw) {
                                Ok(x) => x,
                                Err(e) => {
                                    cx.violate("honest-step/error", format!("{:?}", e));
                                    continue;
                                }
                            };
                            let evl = sp.evaluate(seedf.of(&setup), cid, &ke1[..noe]);
                            for (what, file) in [("with-record", Some(Blob::n(&r.file))), ("without-record", None)] {
                                for kj in 0..2 {
                                    let s2 = setup_of(si, kj);
                                    // the evaluation must not depend on the optional login parameters either
                                    for (pn, ctx, idu, ids) in [("no-parameters", None, None, None), ("context+identities", Some(&b"ctx"[..]), Some(&b"alice-identity"[..]), Some(&b"server-identity"[..])), ("client-identity-only", None, Some(&b"alice-identity"[..]), None)] {
                                        cx.edges += 1;
                                        match api.slogin_start(&mut Tape::seeded(seed, "c14/server"), &Blob::n(&s2), file.as_ref(), &Blob::n(&ke1), cid, ctx, idu, ids) {
                                            Ok((ke2, _)) => {
                                                if ke2[..noe] != evl[..] {
                                                    cx.violate(&format!("evaluation/login-{}-differs/{}", what, pn), format!("login evaluation ({}, static key {}, {}) differs from the reference model's function of (seed, credential id, request)", what, kj, pn));
                                                } else {
                                                    cx.outcome("evaluation-matches-model");
                                                }
                                            }
                                            Err(e) => cx.violate("honest-step/error", format!("{:?}", e)),
                                        }
                                    }
                                }
                            }
                        }
                        recs.push(RegRec { pw: pi, cid: ci, seed: si, key: ki, tape: ti, req: r.req.clone(), masking_key: mkf.of(&r.file).to_vec() });
                    }
                }
            }
        }
    }
    // near-miss seeds: the evaluation under a setup whose seed differs from seed 0 in a single byte (last byte; byte 8;
    // byte 0) must be the model's evaluation for THAT seed, and differ from seed 0's
    for pos in [seedf.len - 1, 8.min(seedf.len - 1), 0] {
        let mut s2 = setup_of(0, 0);
        s2[seedf.start + pos] ^= 1;
        for (ci, cid) in cids.iter().enumerate().take(4) {
            cx.begin_case(json!({"seed": format!("seed 0 with byte {} flipped", pos), "cid": desc(cid)}));
            cx.state(&("near-seed", pos, ci));
            cx.path();
            cx.edges += 2;
            let mut bt = Tape::seeded(seed, "c14/blind/0");
            if let Ok((req, _)) = api.reg_start(&mut bt, &pws[0]) {
                let e0 = api.sreg_start(&Blob::n(&setup_of(0, 0)), &Blob::n(&req), cid);
                let e2 = api.sreg_start(&Blob::n(&s2), &Blob::n(&req), cid);
                let m2 = sp.evaluate(seedf.of(&s2), cid, &req);
                match (e0, e2) {
                    (Ok(a), Ok(b)) => {
                        if b[..sp.noe()] != m2[..] {
                            cx.violate("evaluation/near-miss-seed-differs-from-model", "the evaluation under a seed that differs in one byte is not the reference model's evaluation for that seed".into());
                        } else if a[..sp.noe()] == b[..sp.noe()] {
                            cx.violate("evaluation/ignores-seed-byte", format!("flipping byte {} of the OPRF seed does not change the evaluation", pos));
                        } else {
                            cx.outcome("near-miss-seed-evaluates-per-model");
                        }
                    }
                    _ => cx.violate("honest-step/error", "registration start fails".into()),
                }
            }
        }
    }
    // all pairs
    for i in 0..recs.len() {
        for j in 0..i {
            let (x, y) = (&recs[i], &recs[j]);
            let same_in = x.pw == y.pw && x.cid == y.cid && x.seed == y.seed;
            cx.add("pairs_compared", 1);
            let case = || json!({"a": {"pw": x.pw, "cid": x.cid, "seed": x.seed, "key": x.key, "tape": x.tape}, "b": {"pw": y.pw, "cid": y.cid, "seed": y.seed, "key": y.key, "tape": y.tape}});
            if same_in && x.masking_key != y.masking_key {
                cx.violate_case("masking-key/depends-on-blind-or-static-key", "equal (password, credential id, seed) give different masking keys - the result depends on the blinding randomness or on the static key".into(), case());
            }
            if !same_in && x.masking_key == y.masking_key {
                let which = if x.pw != y.pw { "password" } else if x.cid != y.cid { "credential-id" } else { "seed" };
                cx.violate_case(&format!("masking-key/ignores-{}", which), format!("different {} give the same masking key", which), case());
            }
            if x.tape != y.tape && x.req == y.req {
                cx.violate_case("request/same-across-blinding-tapes", "registration requests on independent blinding tapes are byte-identical (the blind does not come from the RNG)".into(), case());
            }
        }
    }
    cx.outcome("all-pairs-judged");
    cx.sample(json!({"suite": api.name(), "registrations": recs.len(), "alphabet": {"pw": pws.iter().map(|p| desc(p)).collect::<Vec<_>>(), "cid": cids.iter().map(|c| desc(c)).collect::<Vec<_>>(), "seeds": 2, "static_keys": 2, "blinding_tapes": 3}}));
}

pub fn run(tier: Tier, seed: u64) -> i32 {
    let t0 = Instant::now();
    crate::vectors::require();
    let items = all_apis();
    let tot = fw::run_items("C14", &items, |a| a.name().to_string(), |api, cx| explore(api, seed, cx));
    let rep = Report {
        property: "C14",
        tier,
        seed,
        rule: "full product 4 passwords x 7 credential ids x 2 seeds x 2 static keys x 3 blinding tapes = 336 registrations per suite, login evaluations through 4 paths each, then the relation on ALL pairs of registrations".into(),
        bounds: json!({"suites": 20, "registrations_per_suite": 336, "pairs_per_suite": 336 * 335 / 2, "quick_equals_thorough": true}),
        assumptions: vec!["'unrelated' is decided as 'different'; no statistical independence claim".into()],
        exhaustive: true,
        crosscheck: json!(null),
    };
    fw::finish(rep, tot, t0)
}
