//! C12 - total, panic-free handling of every input.
//! (1) The panic / slow-call monitor is active in every transition of every driver.  (2) Dedicated sweeps here:
//!  a. every artefact, mutated (all truncations, extensions by 1..8, single-bit flips), fed to the protocol STEP that
//!     consumes it (not only to its decoder);
//!  b. well-formed artefacts of another session, another server and - where lengths agree - another cipher suite fed
//!     to every step;
//!  c. a fixed alphabet of 256 tape-derived strings per decoder with lengths spread over 0..len+64;
//!  d. every length in {0, 1, 255, 256, 65535, 65536, 65537, 131072} for every length-carrying parameter of every step;
//!  f. the serde decoders of all 11 types on mutated bincode bytes and mutated JSON text (deletions, duplications,
//!     replacements, truncations of the text the implementation itself produced);
//!  g. degenerate random generators (constant, short period) on the operations without rejection sampling;
//!  e. the key-pair API (PublicKey, PrivateKey, KeyPair, Diffie-Hellman, their serde forms, new_with_key, seeded
//!     derivation) on all truncations, extensions, bit flips and 256 tape strings of a public and a private key.
//! Oracle: every call returns Ok or Err (no panic, within the time limit); identities and contexts above 65535 bytes
//! are refused; with a password above 65535 bytes no registration or login completes, and nothing produced for an
//! over-long input equals what is produced for that input truncated to, or reduced modulo, 65536 bytes.
use super::common::*;
use crate::adapter::{suites, Blob, E};
use crate::api::Api;
use crate::flow::{self, o, Full, Params};
use crate::fw::{self, Cx, Report, Tier, Totals};
use crate::refmodel::{Kind, ALL_KINDS};
use crate::tape::Tape;
use rand::RngCore;
use serde_json::json;
use std::time::Instant;

/// the protocol steps that consume persisted/transmitted artefacts: (step name, artefact kinds consumed)
const SLOTS: [(&str, Kind); 13] = [
    ("sreg_start", Kind::Setup),
    ("sreg_start", Kind::RegReq),
    ("reg_finish", Kind::CReg),
    ("reg_finish", Kind::RegResp),
    ("sreg_finish", Kind::Upload),
    ("slogin_start", Kind::Setup),
    ("slogin_start", Kind::File),
    ("slogin_start", Kind::CredReq),
    ("login_finish", Kind::CLogin),
    ("login_finish", Kind::CredResp),
    ("slogin_finish", Kind::SLogin),
    ("slogin_finish", Kind::Fin),
    ("setup_pk", Kind::Setup),
];

/// call `step` with artefact `kind` replaced by `m`, everything else honest
fn call_step(api: &Api, f: &Full, p: &Params, step: &str, kind: Kind, m: &[u8], seed: u64) -> Result<(), E> {
    let a = artefacts(f);
    let get = |k: Kind| -> Blob {
        if k == kind {
            Blob::n(m)
        } else {
            Blob::n(&a[&k])
        }
    };
    let mut t = Tape::seeded(seed, "c12/step");
    match step {
        "sreg_start" => api.sreg_start(&get(Kind::Setup), &get(Kind::RegReq), &p.cid).map(|_| ()),
        "reg_finish" => api.reg_finish(&mut t, &get(Kind::CReg), &p.pw, &get(Kind::RegResp), o(&p.idu), o(&p.ids), None).map(|_| ()),
        "sreg_finish" => api.sreg_finish(&get(Kind::Upload)).map(|_| ()),
        "slogin_start" => api.slogin_start(&mut t, &get(Kind::Setup), Some(&get(Kind::File)), &get(Kind::CredReq), &p.cid, o(&p.ctx), o(&p.idu), o(&p.ids)).map(|_| ()),
        "login_finish" => api.login_finish(&get(Kind::CLogin), &p.pw, &get(Kind::CredResp), o(&p.ctx), o(&p.idu), o(&p.ids), None).map(|_| ()),
        "slogin_finish" => api.slogin_finish(&get(Kind::SLogin), &get(Kind::Fin)).map(|_| ()),
        "setup_pk" => api.setup_pk(&get(Kind::Setup)).map(|_| ()),
        _ => unreachable!(),
    }
}

fn judge(cx: &mut Cx, r: Result<(), E>) {
    match r {
        Ok(()) => cx.outcome("ok"),
        Err(E::Panic(_)) => cx.outcome("PANIC"), // reported by the monitor (drain_panics) with the op name
        Err(_) => cx.outcome("error-value"),
    }
    cx.edges += 1;
    cx.path();
}

/// sweep a: mutations of one artefact fed to its consuming step
fn sweep_mutations(api: &Api, slot: usize, tier: Tier, seed: u64, cx: &mut Cx) {
    let p = setting(1);
    let f = match honest(api, seed, "c12/a", &p) {
        Ok(f) => f,
        Err(e) => {
            cx.violate_case("honest-step/error", e, json!({}));
            return;
        }
    };
    cx.context_done();
    let (step, kind) = SLOTS[slot];
    let b = artefacts(&f)[&kind].clone();
    let mut run = |cx: &mut Cx, m: &[u8], how: serde_json::Value| {
        if !cx.state(&(slot, m)) {
            return;
        }
        cx.begin_case(json!({"step": step, "artefact": kind.name(), "mutation": how}));
        let r = call_step(api, &f, &p, step, kind, m, seed);
        judge(cx, r);
        cx.drain_panics();
    };
    for l in 0..b.len() {
        run(cx, &b[..l], json!({"truncate_to": l}));
    }
    for extra in 1..=8usize {
        let mut m = b.clone();
        m.extend(std::iter::repeat(0x5au8).take(extra));
        run(cx, &m, json!({"extend_by": extra}));
    }
    for i in 0..b.len() {
        let bits: Vec<u8> = if tier.thorough() { (0..8).collect() } else { vec![0, 7] };
        for bit in bits {
            let mut m = b.clone();
            m[i] ^= 1 << bit;
            run(cx, &m, json!({"flip_bit": [i, bit]}));
        }
    }
    // c. tape-derived strings of spread lengths, to the step and to the decoder
    for k in 0..256usize {
        let len = (k * (b.len() + 64)) / 255;
        let mut m = vec![0u8; len];
        Tape::seeded(seed, &format!("c12/str/{}/{}", slot, k)).fill_bytes(&mut m);
        run(cx, &m, json!({"tape_string": k, "len": len}));
        cx.begin_case(json!({"decoder": kind.name(), "tape_string": k, "len": len}));
        let r = api.decode(kind, &m).map(|_| ());
        judge(cx, r);
        cx.drain_panics();
    }
    cx.sample(json!({"suite": api.name(), "sweep": "a+c", "step": step, "artefact": kind.name(), "artefact_len": b.len()}));
}

/// sweep b: well-formed artefacts from other sessions / servers / suites
fn sweep_foreign(api: &Api, seed: u64, cx: &mut Cx) {
    let p = setting(1);
    let f = match honest(api, seed, "c12/b0", &p) {
        Ok(f) => f,
        Err(e) => {
            cx.violate_case("honest-step/error", e, json!({}));
            return;
        }
    };
    // donors: another session+server of this suite, and every other suite
    let mut donors: Vec<(String, std::collections::BTreeMap<Kind, Vec<u8>>)> = vec![];
    if let Ok(f2) = honest(api, seed, "c12/b1", &setting(0)) {
        donors.push((format!("{}/other-server-and-session", api.name()), artefacts(&f2)));
    }
    for other in suites() {
        if other.name() != api.name() {
            if let Ok(f3) = honest(&Api::new(other), seed, "c12/b2", &p) {
                donors.push((other.name().to_string(), artefacts(&f3)));
            }
        }
    }
    cx.context_done();
    for (slot, (step, kind)) in SLOTS.iter().enumerate() {
        for (dn, d) in &donors {
            // same kind from the donor; and any donor artefact of the same length as the expected one
            for k2 in ALL_KINDS {
                let m = &d[&k2];
                let same_len = m.len() == artefacts(&f)[kind].len();
                if k2 != *kind && !same_len {
                    continue;
                }
                if !cx.state(&(slot, dn, k2)) {
                    continue;
                }
                cx.begin_case(json!({"step": step, "artefact_slot": kind.name(), "donor_suite": dn, "donor_artefact": k2.name(), "same_length": same_len}));
                let r = call_step(api, &f, &p, step, *kind, m, seed);
                judge(cx, r);
                cx.drain_panics();
            }
        }
    }
    cx.sample(json!({"suite": api.name(), "sweep": "b", "donors": donors.len()}));
}

/// sweep d: boundary lengths for every length-carrying parameter of every step
fn sweep_lengths(api: &Api, seed: u64, cx: &mut Cx) {
    let p = setting(0);
    let f = match honest(api, seed, "c12/d", &p) {
        Ok(f) => f,
        Err(e) => {
            cx.violate_case("honest-step/error", e, json!({}));
            return;
        }
    };
    cx.context_done();
    let lens = [0usize, 1, 255, 256, 65535, 65536, 65537, 131072];
    let val = |n: usize| vec![b'z'; n];
    let b = |x: &[u8]| Blob::n(x);
    for n in lens {
        let v = val(n);
        let over = n > 65535;
        let mut t = Tape::seeded(seed, "c12/d/tape");
        // --- identities and contexts: every step that takes them
        let calls: Vec<(&str, Result<(), E>)> = vec![
            ("reg_finish.idu", api.reg_finish(&mut t.clone(), &b(&f.reg.creg), &p.pw, &b(&f.reg.resp), Some(&v), None, None).map(|_| ())),
            ("reg_finish.ids", api.reg_finish(&mut t.clone(), &b(&f.reg.creg), &p.pw, &b(&f.reg.resp), None, Some(&v), None).map(|_| ())),
            ("slogin_start.ctx", api.slogin_start(&mut t.clone(), &b(&f.setup), Some(&b(&f.reg.file)), &b(&f.login.ke1), &p.cid, Some(&v), None, None).map(|_| ())),
            ("slogin_start.idu", api.slogin_start(&mut t.clone(), &b(&f.setup), Some(&b(&f.reg.file)), &b(&f.login.ke1), &p.cid, None, Some(&v), None).map(|_| ())),
            ("slogin_start.ids", api.slogin_start(&mut t.clone(), &b(&f.setup), Some(&b(&f.reg.file)), &b(&f.login.ke1), &p.cid, None, None, Some(&v)).map(|_| ())),
            ("slogin_start(no record).idu", api.slogin_start(&mut t.clone(), &b(&f.setup), None, &b(&f.login.ke1), &p.cid, None, Some(&v), None).map(|_| ())),
            ("login_finish.ctx", api.login_finish(&b(&f.login.clogin), &p.pw, &b(&f.login.ke2), Some(&v), None, None, None).map(|_| ())),
            ("login_finish.idu", api.login_finish(&b(&f.login.clogin), &p.pw, &b(&f.login.ke2), None, Some(&v), None, None).map(|_| ())),
            ("login_finish.ids", api.login_finish(&b(&f.login.clogin), &p.pw, &b(&f.login.ke2), None, None, Some(&v), None).map(|_| ())),
        ];
        for (what, r) in calls {
            cx.begin_case(json!({"parameter": what, "length": n}));
            cx.state(&(what, n));
            let is_reg_or_sstart = what.starts_with("reg_finish") || what.starts_with("slogin_start");
            match (&r, over) {
                (Ok(()), true) => {
                    cx.outcome("OVER-LIMIT-ACCEPTED");
                    cx.violate(&format!("over-limit-accepted/{}", what), format!("{} of {} bytes (> 65535) is accepted instead of refused", what, n));
                }
                (Err(E::Panic(_)), _) => {}
                (Err(e), false) if is_reg_or_sstart => cx.violate(&format!("within-limit-refused/{}", what), format!("{} of {} bytes is refused: {:?}", what, n, e)),
                _ => {}
            }
            judge(cx, r);
            cx.drain_panics();
        }
        // --- credential identifier (no length prefix in the specification: any length must work, and must matter)
        cx.begin_case(json!({"parameter": "credential identifier", "length": n}));
        cx.state(&("cid", n));
        let r1 = api.sreg_start(&b(&f.setup), &b(&f.reg.req), &v);
        let r2 = api.slogin_start(&mut t.clone(), &b(&f.setup), Some(&b(&f.reg.file)), &b(&f.login.ke1), &v, None, None, None);
        if over {
            // not truncated / wrapped: the evaluation differs from that of the reduced identifiers
            for red in [n % 65536, 65535, 65536.min(n - 1)] {
                if let (Ok(a), Ok(bb)) = (&r1, api.sreg_start(&b(&f.setup), &b(&f.reg.req), &val(red))) {
                    if a == &bb {
                        cx.violate("cid-truncated-or-wrapped", format!("a {}-byte credential identifier evaluates like its {}-byte reduction", n, red));
                    }
                }
            }
        }
        judge(cx, r1.map(|_| ()));
        judge(cx, r2.map(|_| ()));
        cx.drain_panics();
        // --- password: both registration steps and both login steps
        cx.begin_case(json!({"parameter": "password", "length": n}));
        cx.state(&("pw", n));
        let mut rt = Tape::seeded(seed, "c12/d/pw");
        let reg_done = (|| -> Result<Vec<u8>, E> {
            let (rq, st) = api.reg_start(&mut rt, &v)?;
            let rs = api.sreg_start(&b(&f.setup), &b(&rq), &p.cid)?;
            let (up, _, _) = api.reg_finish(&mut rt, &b(&st), &v, &b(&rs), None, None, None)?;
            Ok(up)
        })();
        match (&reg_done, over) {
            (Ok(_), true) => {
                cx.outcome("OVER-LIMIT-ACCEPTED");
                cx.violate("over-limit-accepted/registration-password", format!("a registration with a {}-byte password completes", n));
            }
            (Err(E::Panic(_)), _) => {}
            (Err(e), false) => cx.violate("within-limit-refused/registration-password", format!("registration with a {}-byte password fails: {:?}", n, e)),
            _ => {}
        }
        judge(cx, reg_done.clone().map(|_| ()));
        // login with the over-long password against a record registered with its reductions must not complete
        let mut targets: Vec<(String, Vec<u8>)> = vec![];
        if over {
            for red in [n % 65536, 65535] {
                let mut rt2 = Tape::seeded(seed, "c12/d/pw2");
                if let Ok(r) = flow::register(api, &mut rt2, &f.setup, &val(red), &p.cid, None, None, None) {
                    targets.push((format!("record of the {}-byte reduction", red), r.file));
                }
            }
        } else if let Ok(up) = &reg_done {
            targets.push(("own record".into(), up.clone()));
        }
        for (tn, file) in targets {
            cx.begin_case(json!({"parameter": "password", "length": n, "login_against": tn}));
            let mut lt = Tape::seeded(seed, "c12/d/login");
            let done = (|| -> Result<(), E> {
                let (k1, cs) = api.login_start(&mut lt, &v)?;
                let (k2, _) = api.slogin_start(&mut lt, &b(&f.setup), Some(&b(&file)), &b(&k1), &p.cid, None, None, None)?;
                api.login_finish(&b(&cs), &v, &b(&k2), None, None, None, None).map(|_| ())
            })();
            match (&done, over) {
                (Ok(()), true) => {
                    cx.outcome("OVER-LIMIT-ACCEPTED");
                    cx.violate("over-limit-accepted/login-password", format!("a login with a {}-byte password completes against the {}", n, tn));
                }
                (Err(E::Panic(_)), _) => {}
                (Err(e), false) => cx.violate("within-limit-refused/login-password", format!("login with a {}-byte password fails: {:?}", n, e)),
                _ => {}
            }
            judge(cx, done);
        }
        cx.drain_panics();
    }
    cx.sample(json!({"suite": api.name(), "sweep": "d", "lengths": lens, "parameters": ["password (4 steps)", "credential identifier (2 steps)", "client identity (3 steps)", "server identity (3 steps)", "context (2 steps)"]}));
}

/// sweep g: degenerate random generators (constant, short period).  Only operations that contain no rejection
/// sampling are exercised (setup, new_with_key, registration finish, server login start with / without a record):
/// they must terminate on every tape.  (The OPRF blind is sampled by rejection, as RFC 9497 prescribes, and may spin on a
/// constant generator - that is not claimed.)  A hang is reported by the watchdog, whose limit is lowered for this sweep.
fn sweep_degenerate(api: &Api, seed: u64, cx: &mut Cx) {
    let p = setting(0);
    let f = match honest(api, seed, "c12/g", &p) {
        Ok(f) => f,
        Err(e) => {
            cx.violate_case("honest-step/error", e, json!({}));
            return;
        }
    };
    cx.context_done();
    let sk = api.spec.field(Kind::Setup, "server_sk").of(&f.setup).to_vec();
    // period 1000/1001/1002 stand for the constant generators 0x00, 0xff and 0x01
    for period in [0usize, 1, 2, 8, 32, 64, 1000, 1001, 1002] {
        for lab in ["a", "b"] {
            if period >= 1000 && lab == "b" {
                continue;
            }
            let mk = || match period {
                1000 => Tape::constant(0x00),
                1001 => Tape::constant(0xff),
                1002 => Tape::constant(0x01),
                _ => Tape::degenerate(&format!("seed{}/c12/g/{}", seed, lab), period),
            };
            let ops: Vec<(&str, Box<dyn Fn() -> Result<(), E> + '_>)> = vec![
                ("setup", Box::new(|| api.setup(&mut mk()).map(|_| ()))),
                ("setup_with_key", Box::new(|| api.setup_with_key(&mut mk(), &sk).map(|_| ()))),
                ("reg_finish", Box::new(|| api.reg_finish(&mut mk(), &Blob::n(&f.reg.creg), &p.pw, &Blob::n(&f.reg.resp), None, None, None).map(|_| ()))),
                ("slogin_start", Box::new(|| api.slogin_start(&mut mk(), &Blob::n(&f.setup), Some(&Blob::n(&f.reg.file)), &Blob::n(&f.login.ke1), &p.cid, None, None, None).map(|_| ()))),
                ("slogin_start(no record)", Box::new(|| api.slogin_start(&mut mk(), &Blob::n(&f.setup), None, &Blob::n(&f.login.ke1), &p.cid, None, None, None).map(|_| ()))),
            ];
            for (name, op) in ops {
                cx.begin_case(json!({"sweep": "degenerate generator", "op": name, "generator": match period { 0 => "constant".to_string(), 1000 => "all 0x00".to_string(), 1001 => "all 0xff".to_string(), 1002 => "all 0x01".to_string(), n => format!("period {} bytes", n) }, "label": lab}));
                if !cx.state(&("degenerate", name, period, lab)) {
                    continue;
                }
                judge(cx, op());
                cx.drain_panics();
            }
        }
    }
    cx.sample(json!({"suite": api.name(), "sweep": "g", "generators": ["constant", "period 1/2/8/32/64"], "ops": ["setup", "setup_with_key", "reg_finish", "slogin_start", "slogin_start(no record)"]}));
}

/// sweep f: the serde decoders (bincode, JSON) of every message / state type on mutations of the serde form the
/// implementation itself produced: bincode - truncations, extensions, bit flips; JSON text - every single-character
/// deletion, duplication and replacement (by a small alphabet), every truncation
fn sweep_serde(api: &Api, kind: Kind, tier: Tier, seed: u64, cx: &mut Cx) {
    use crate::adapter::Codec;
    let f = match honest(api, seed, "c12/f", &setting(1)) {
        Ok(f) => f,
        Err(e) => {
            cx.violate_case("honest-step/error", e, json!({}));
            return;
        }
    };
    let native = artefacts(&f)[&kind].clone();
    let (bin, js) = match (api.recode(kind, &Blob::n(&native), Codec::Bincode), api.recode(kind, &Blob::n(&native), Codec::Json)) {
        (Ok(b), Ok(j)) => (b.bytes, j.bytes),
        _ => {
            cx.violate_case("machinery/serde-encode", "cannot produce the serde forms".into(), json!({"kind": kind.name()}));
            return;
        }
    };
    cx.context_done();
    let mut feed = |cx: &mut Cx, codec: Codec, m: Vec<u8>, how: serde_json::Value| {
        if !cx.state(&(kind, codec, &m)) {
            return;
        }
        cx.begin_case(json!({"decoder": kind.name(), "codec": format!("{:?}", codec), "mutation": how}));
        let r = api.recode(kind, &Blob::new(codec, m), Codec::Native).map(|_| ());
        judge(cx, r);
        cx.drain_panics();
    };
    for l in 0..bin.len() {
        feed(cx, Codec::Bincode, bin[..l].to_vec(), json!({"truncate_to": l}));
    }
    for extra in 1..=4usize {
        let mut m = bin.clone();
        m.extend(std::iter::repeat(0u8).take(extra));
        feed(cx, Codec::Bincode, m, json!({"extend_by": extra}));
    }
    for i in 0..bin.len() {
        for bit in if tier.thorough() { (0..8).collect::<Vec<u8>>() } else { vec![0, 7] } {
            let mut m = bin.clone();
            m[i] ^= 1 << bit;
            feed(cx, Codec::Bincode, m, json!({"flip_bit": [i, bit]}));
        }
    }
    let repl: &[u8] = if tier.thorough() { b"0f9\",[]{}: -" } else { b"0\",]" };
    for i in 0..js.len() {
        let mut m = js.clone();
        m.remove(i);
        feed(cx, Codec::Json, m, json!({"delete_char_at": i}));
        let mut m = js.clone();
        m.insert(i, js[i]);
        feed(cx, Codec::Json, m, json!({"duplicate_char_at": i}));
        for c in repl {
            if *c != js[i] {
                let mut m = js.clone();
                m[i] = *c;
                feed(cx, Codec::Json, m, json!({"replace_char_at": i, "with": (*c as char).to_string()}));
            }
        }
        if tier.thorough() || i % 4 == 0 {
            feed(cx, Codec::Json, js[..i].to_vec(), json!({"truncate_to": i}));
        }
    }
    cx.sample(json!({"suite": api.name(), "sweep": "f", "decoder": kind.name(), "bincode_len": bin.len(), "json_len": js.len()}));
}

/// sweep e: the key-pair API (PublicKey / PrivateKey / KeyPair / Diffie-Hellman) on mutated and arbitrary byte strings
fn sweep_keys(api: &Api, tier: Tier, seed: u64, cx: &mut Cx) {
    use crate::adapter::Codec;
    let sp = api.spec;
    let f = match honest(api, seed, "c12/e", &setting(0)) {
        Ok(f) => f,
        Err(e) => {
            cx.violate_case("honest-step/error", e, json!({}));
            return;
        }
    };
    cx.context_done();
    let sk = sp.field(Kind::Setup, "server_sk").of(&f.setup).to_vec();
    let pk = f.spk.clone();
    for (what, base) in [("public key", &pk), ("private key", &sk)] {
        let mut muts: Vec<(serde_json::Value, Vec<u8>)> = vec![];
        for l in 0..base.len() {
            muts.push((json!({"truncate_to": l}), base[..l].to_vec()));
        }
        for extra in 1..=8usize {
            let mut m = base.clone();
            m.extend(std::iter::repeat(0x5au8).take(extra));
            muts.push((json!({"extend_by": extra}), m));
        }
        for i in 0..base.len() {
            for bit in if tier.thorough() { (0..8).collect::<Vec<u8>>() } else { vec![0, 7] } {
                let mut m = base.clone();
                m[i] ^= 1 << bit;
                muts.push((json!({"flip_bit": [i, bit]}), m));
            }
        }
        for k in 0..256usize {
            let len = (k * (base.len() + 64)) / 255;
            let mut m = vec![0u8; len];
            Tape::seeded(seed, &format!("c12/key/{}/{}", what, k)).fill_bytes(&mut m);
            muts.push((json!({"tape_string": k, "len": len}), m));
        }
        muts.push((json!("all-zero"), vec![0u8; base.len()]));
        muts.push((json!("all-ff"), vec![0xffu8; base.len()]));
        for (how, m) in muts {
            if !cx.state(&(what, &m)) {
                continue;
            }
            cx.begin_case(json!({"api": what, "mutation": how, "bytes": hex::encode(&m)}));
            let jsonb = serde_json::to_vec(&m.iter().map(|x| json!(*x)).collect::<Vec<_>>()).unwrap();
            if what == "public key" {
                judge(cx, api.ke_pk_recode(&m).map(|_| ()));
                judge(cx, api.ke_dh(&sk, &m).map(|_| ()));
                judge(cx, api.ke_pk_serde(&Blob::new(Codec::Bincode, m.clone())).map(|_| ()));
                judge(cx, api.ke_pk_serde(&Blob::new(Codec::Json, jsonb)).map(|_| ()));
            } else {
                judge(cx, api.ke_sk_recode(&m).map(|_| ()));
                judge(cx, api.ke_keypair_pk(&m).map(|_| ()));
                judge(cx, api.ke_public_key(&m).map(|_| ()));
                judge(cx, api.ke_dh(&m, &pk).map(|_| ()));
                judge(cx, api.ke_sk_serde(&Blob::new(Codec::Bincode, m.clone())).map(|_| ()));
                judge(cx, api.ke_sk_serde(&Blob::new(Codec::Json, jsonb)).map(|_| ()));
                judge(cx, api.setup_with_key(&mut Tape::seeded(seed, "c12/e/swk"), &m).map(|_| ()));
                if m.len() == sk.len() {
                    judge(cx, api.ke_derive(&m).map(|_| ()));
                }
            }
            cx.drain_panics();
        }
    }
    cx.sample(json!({"suite": api.name(), "sweep": "e", "apis": ["PublicKey::deserialize", "PrivateKey::deserialize", "KeyPair::from_private_key_slice", "KeGroup::public_key", "SecretKey::diffie_hellman", "serde of both key types", "ServerSetup::new_with_key", "derive_auth_keypair"]}));
}

pub fn run(tier: Tier, seed: u64) -> i32 {
    let t0 = Instant::now();
    let mut tot = Totals::default();
    let mut items = vec![];
    for api in all_apis() {
        for slot in 0..SLOTS.len() {
            items.push((api, slot));
        }
    }
    // VERIF_C12_PARTS=a,b,d,e,f,g restricts the sweeps (used by ./check for the debug-assertions variant of the quick tier)
    let parts = std::env::var("VERIF_C12_PARTS").unwrap_or_default();
    let on = |p: &str| parts.is_empty() || parts.split(',').any(|x| x == p);
    if on("a") {
        tot.merge(fw::run_items("C12", &items, |(a, _)| a.name().to_string(), |(api, slot), cx| sweep_mutations(api, *slot, tier, seed, cx)));
    }
    let apis = all_apis();
    if on("b") {
        tot.merge(fw::run_items("C12", &apis, |a| a.name().to_string(), |api, cx| sweep_foreign(api, seed, cx)));
    }
    if on("d") {
        tot.merge(fw::run_items("C12", &apis, |a| a.name().to_string(), |api, cx| sweep_lengths(api, seed, cx)));
    }
    if on("e") {
        tot.merge(fw::run_items("C12", &apis, |a| a.name().to_string(), |api, cx| sweep_keys(api, tier, seed, cx)));
    }
    let mut sitems = vec![];
    for api in all_apis() {
        for k in ALL_KINDS {
            sitems.push((api, k));
        }
    }
    if on("f") {
        tot.merge(fw::run_items("C12", &sitems, |(a, _)| a.name().to_string(), |(api, k), cx| sweep_serde(api, *k, tier, seed, cx)));
    }
    // last, with a lowered hang limit: degenerate generators
    if on("g") {
        crate::api::HANG_LIMIT_OVERRIDE_MS.store(20_000, std::sync::atomic::Ordering::Relaxed);
        tot.merge(fw::run_items("C12", &apis, |a| a.name().to_string(), |api, cx| sweep_degenerate(api, seed, cx)));
        crate::api::HANG_LIMIT_OVERRIDE_MS.store(0, std::sync::atomic::Ordering::Relaxed);
    }
    if tot.slow_calls > 0 {
        tot.machinery_errors.push(format!("{} call(s) exceeded the {} ms limit (max {} ms): re-run to confirm; a reproducible hang is a C12 violation", tot.slow_calls, crate::api::SLOW_MS, tot.max_call_ms));
    }
    let rep = Report {
        property: "C12",
        tier,
        seed,
        rule: "complete enumeration of: all truncations, extensions by 1..8 and single-bit flips of each of 13 (step, artefact) slots fed to the consuming protocol step; 256 tape-derived strings per slot (to step and decoder); every artefact of another session/server and of every other suite fed to every slot where kind or length matches; 8 boundary lengths x every length-carrying parameter of every step; each call is one monitored transition".into(),
        bounds: json!({"sweeps_run": if parts.is_empty() { "a,b,c,d,e,f,g (all)".to_string() } else { parts.clone() }, "debug_assertions": cfg!(debug_assertions), "suites": 20, "slots": SLOTS.len(), "bit_flips": if tier.thorough() {"all 8 bits of every byte"} else {"bits 0 and 7 of every byte"}, "extensions": "1..8", "tape_strings_per_slot": 256, "lengths": [0, 1, 255, 256, 65535, 65536, 65537, 131072], "time_limit_ms_per_call": crate::api::SLOW_MS as u64}),
        assumptions: vec!["panics are observed through catch_unwind around every API call; process aborts (stack overflow, OOM) would kill the check and surface as a machinery failure".into(), "Curve25519::hash_to_scalar is unimplemented!() but is a KeGroup trait method outside the API surface the property names; not exercised".into()],
        exhaustive: true,
        crosscheck: json!(null),
    };
    fw::finish(rep, tot, t0)
}
