//! C01 - honest registration + login always agree on keys.
//! Enumerated: the honest 9-step flow from every input tuple (<=k deviations; boundary product in thorough) x 20
//! suites x KSF families.  Oracle (differential between the two parties, no expected bytes): every step Ok;
//! client and server session keys byte-equal; login export key == registration export key; the server public key
//! reported at registration == at login == the setup's.
use super::common::*;
use crate::api::Api;
use crate::flow;
use crate::fw::{self, Cx, Report, Tier, Totals};
use crate::tape::Tape;
use serde_json::json;
use std::time::Instant;

fn one(api: &Api, it: &InTuple, seed: u64, cx: &mut Cx) {
    let mut t = Tape::seeded(seed, &format!("c01/{}", it.tape));
    let mut p = it.p.clone();
    if it.ids_is_server_pk {
        // resolve the explicit spelling: needs the setup first; run setup on a clone of the tape to learn the key
        let mut t2 = t.clone();
        match api.setup(&mut t2).and_then(|s| api.setup_pk(&crate::adapter::Blob::n(&s))) {
            Ok(pk) => p.ids = Some(pk),
            Err(e) => {
                cx.violate("setup/error", format!("setup failed: {:?}", e));
                return;
            }
        }
    }
    match flow::full(api, &mut t, &p) {
        Err(e) => {
            cx.outcome("STEP-FAILED");
            cx.violate(&format!("{}/error", e.step), format!("honest step {} fails with {:?}", e.step, e.e));
        }
        Ok(f) => {
            let mut ok = true;
            if f.login.sk_client != f.login.sk_server {
                ok = false;
                cx.violate("session-key-mismatch", "client and server session keys differ after an honest login".into());
            }
            if f.login.export != f.reg.export {
                ok = false;
                cx.violate("export-key-mismatch", "login returns a different export key than registration".into());
            }
            if f.reg.spk_seen != f.spk || f.login.spk_seen != f.spk {
                ok = false;
                cx.violate("server-pk-mismatch", "server public key reported to the client differs from the setup's".into());
            }
            cx.state(&(&f.login.sk_client, &f.login.export));
            cx.outcome(if ok { "agree" } else { "DISAGREE" });
        }
    }
    cx.path();
    cx.edges += 9;
    cx.depth(9);
}

/// "every random tape" includes RELATED generators of the two parties: the same stream on both sides, the server's
/// stream equal to the client's shifted by every offset in -96..=96 around the client's login start (so that every
/// pair of random fields of the two parties coincides for some offset), and the constant generator 0x01 on both sides.
fn related_generators(api: &Api, seed: u64, cx: &mut Cx) {
    use crate::adapter::Blob;
    let p = setting(0);
    let label = format!("seed{}/c01/rel", seed);
    let mut cases: Vec<(String, Tape, Tape, Option<i64>)> = vec![("same stream from the start".into(), Tape::new(&label), Tape::new(&label), None), ("constant 0x01 on both sides".into(), Tape::constant(1), Tape::constant(1), None)];
    for d in -96i64..=96 {
        cases.push((format!("server stream = client stream at login start {:+}", d), Tape::new(&label), Tape::new(&format!("{}/server", label)), Some(d)));
    }
    cx.context_done();
    for (name, mut tc, mut ts, shift) in cases {
        cx.begin_case(json!({"generators": name}));
        if !cx.state(&("rel", &name)) {
            continue;
        }
        cx.path();
        cx.edges += 9;
        let r = (|| -> Result<bool, (String, crate::adapter::E)> {
            let e = |s: &str| { let s = s.to_string(); move |e| (s, e) };
            let setup = api.setup(&mut ts).map_err(e("setup"))?;
            let (req, creg) = api.reg_start(&mut tc, &p.pw).map_err(e("reg_start"))?;
            let resp = api.sreg_start(&Blob::n(&setup), &Blob::n(&req), &p.cid).map_err(e("sreg_start"))?;
            let (upload, export, _) = api.reg_finish(&mut tc, &Blob::n(&creg), &p.pw, &Blob::n(&resp), None, None, None).map_err(e("reg_finish"))?;
            let file = api.sreg_finish(&Blob::n(&upload)).map_err(e("sreg_finish"))?;
            if let Some(d) = shift {
                let pos = (tc.pos as i64 + d).max(0) as usize;
                ts = Tape::at(&label, pos);
            }
            let (ke1, cl) = api.login_start(&mut tc, &p.pw).map_err(e("login_start"))?;
            let (ke2, sl) = api.slogin_start(&mut ts, &Blob::n(&setup), Some(&Blob::n(&file)), &Blob::n(&ke1), &p.cid, None, None, None).map_err(e("slogin_start"))?;
            let (ke3, skc, export2, _) = api.login_finish(&Blob::n(&cl), &p.pw, &Blob::n(&ke2), None, None, None, None).map_err(e("login_finish"))?;
            let sks = api.slogin_finish(&Blob::n(&sl), &Blob::n(&ke3)).map_err(e("slogin_finish"))?;
            Ok(skc == sks && export == export2)
        })();
        match r {
            Ok(true) => cx.outcome("agree"),
            Ok(false) => {
                cx.outcome("DISAGREE");
                cx.violate("related-generators/keys", "keys disagree after an honest login on related generators".into());
            }
            Err((step, e)) => {
                cx.outcome("STEP-FAILED");
                cx.violate(&format!("related-generators/{}/error", step), format!("honest step {} fails with {:?} when the two parties' generators are related ({})", step, e, name));
            }
        }
    }
}

pub fn run(tier: Tier, seed: u64) -> i32 {
    let t0 = Instant::now();
    let tuples = input_tuples(tier);
    let mut items: Vec<(Api, InTuple)> = vec![];
    for api in all_apis() {
        for t in &tuples {
            items.push((api, t.clone()));
        }
    }
    let small: Vec<InTuple> = tuples.iter().filter(|t| t.devs <= 1 && !t.boundary).cloned().collect();
    for api in apis_of(crate::adapter::probe::suites()) {
        for t in &small {
            for k in [None, Some(0u32), Some(2u32)] {
                let mut t2 = t.clone();
                t2.p.ksf = k;
                items.push((api, t2));
            }
        }
    }
    for api in apis_of(crate::adapter::argon::suites()) {
        for k in [None, Some(0u32), Some(1u32)] {
            let mut t2 = tuples[0].clone();
            t2.p.ksf = k;
            items.push((api, t2));
        }
    }
    for api in apis_of(crate::adapter::unit::suites()) {
        for k in [None, Some(0u32)] {
            let mut t2 = tuples[0].clone();
            t2.p.ksf = k;
            items.push((api, t2));
        }
    }
    let tot = fw::run_items("C01", &items, |(a, _)| format!("{}:{}", a.s.family(), a.name()), |(api, it), cx| {
        cx.begin_case(it.describe());
        cx.state(&(api.s.family(), it));
        one(api, it, seed, cx);
        cx.sample(json!({"suite": api.name(), "family": api.s.family(), "input": it.describe(), "actions": ["setup", "reg_start", "sreg_start", "reg_finish", "sreg_finish", "login_start", "slogin_start", "login_finish", "slogin_finish"]}));
    });
    // honest behaviour over HISTORIES and over equal-but-differently-spelled parameters (run on behalf of C01 by the
    // machinery of C16, C07 and C05 in `Mode::Honest`: only failures of honest, matched behaviour are reported)
    let mut tot = tot;
    let apis = all_apis();
    tot.merge(fw::run_items("C01", &apis, |a| a.name().to_string(), |api, cx| match super::c16::world(api, tier, seed, Mode::Honest) {
        Ok(w) => {
            let st = crate::explore::bfs(&w, cx, 400_000);
            cx.add("history_states", st.states);
        }
        Err(e) => cx.violate_case("history/setup", e, json!({})),
    }));
    tot.merge(fw::run_items("C01", &apis, |a| a.name().to_string(), |api, cx| super::c07::part_a(api, 0, false, seed, cx, Mode::Honest)));
    tot.merge(fw::run_items("C01", &apis, |a| a.name().to_string(), |api, cx| related_generators(api, seed, cx)));
    let ts: Vec<super::c05::Triple> = super::c05::triples(tier);
    let mut sorted = ts.clone();
    sorted.sort_by_key(|t| fw::h128(t));
    let chunks: Vec<Vec<super::c05::Triple>> = sorted.chunks((sorted.len() + 3) / 4).map(|c| c.to_vec()).collect();
    let mut items2 = vec![];
    for api in all_apis() {
        for c in &chunks {
            items2.push((api, c.clone()));
        }
    }
    tot.merge(fw::run_items("C01", &items2, |(a, _)| a.name().to_string(), |(api, c), cx| super::c05::explore(api, c, seed, cx, Mode::Honest)));
    let rep = Report {
        property: "C01",
        tier,
        seed,
        rule: "every input tuple with <=k deviations from the default over the stated alphabets (plus the full boundary product {\"\",255,256,65535}^4 in the thorough tier) is run through the honest 9-step flow on the production build; differential oracle between client and server".into(),
        bounds: json!({"suites": 20, "input_tuples_per_suite": tuples.len(), "deviation_bound": if tier.thorough() {3} else {2}, "histories": "all histories of registrations/logins within C16's operation bounds; the routing population of C07(a); all matched parameter triples of C05's families (incl. explicit-public-key spellings, empty vs absent context)", "related_generators": "same stream on both sides; server stream = client stream shifted by -96..=96 at login start; constant 0x01 on both sides", "ksf_families": {"identity": "all tuples", "probe": "<=1 deviation x {absent, explicit default, id 2}", "argon2": "default tuple x {absent, explicit default, cost 1} on 3 suites"}}),
        assumptions: vec![],
        exhaustive: true,
        crosscheck: json!(null),
    };
    fw::finish(rep, tot, t0)
}
