//! C15 - the key-stretching function is applied once and bound into every secret.
//! Enumerated (probe-KSF family, all 20 suites): (instance at registration, instance at login) in
//! {absent, explicit default, id 1, id 2}^2 x 2 passwords; a failure injected at call n in {1, 2} of each client
//! finish step; and for the Argon2 family (3 suites): {absent, explicit default, non-default cost}^2.
//! Oracle: exactly one KSF call per client finish step; its input is the reference model's OPRF output; the instance
//! called is the one passed (or the default); login succeeds iff the effective instances are equal; explicit default
//! and absent give byte-identical uploads on the same tape; an injected failure makes the finish step return Err.
use super::common::*;
use crate::adapter::{Blob, E};
use crate::alphabet::desc;
use crate::api::Api;
use crate::fw::{self, Cx, Report, Tier, Totals};
use crate::refmodel::Kind;
use crate::tape::Tape;
use serde_json::json;
use std::time::Instant;

fn inst_name(k: Option<u32>) -> String {
    match k {
        None => "absent".into(),
        Some(0) => "explicit-default".into(),
        Some(3) => "id3(Argon2i, cost of id1)".into(),
        Some(4) => "id4(version 0x10, cost of id1)".into(),
        Some(5) => "id5(keyed with a secret, cost of id1)".into(),
        Some(i) => format!("id{}", i),
    }
}
fn eff(k: Option<u32>) -> u32 {
    k.unwrap_or(0)
}

fn explore(api: &Api, seed: u64, cx: &mut Cx) {
    let sp = api.spec;
    let unit = api.s.family() == "unit";
    let probe = api.s.family() == "probe" || unit;
    let insts: Vec<Option<u32>> = if unit { vec![None, Some(0)] } else if probe { vec![None, Some(0), Some(1), Some(2)] } else { vec![None, Some(0), Some(1), Some(3), Some(4), Some(5)] };
    let pws: Vec<&[u8]> = if probe { vec![b"correct horse", b""] } else { vec![b"correct horse"] };
    let mut t = Tape::seeded(seed, "c15/setup");
    let setup = match api.setup(&mut t) {
        Ok(s) => s,
        Err(e) => {
            cx.violate_case("honest-step/error", format!("{:?}", e), json!({}));
            return;
        }
    };
    cx.context_done();
    let mut ys_by_pw: Vec<(Vec<u8>, Vec<u8>)> = vec![];
    for pw in &pws {
        // registrations under every instance, on the same tape
        let mut uploads: Vec<(Option<u32>, Vec<u8>, Vec<u8>)> = vec![];
        let mut reg_y: std::collections::HashMap<u32, Vec<u8>> = std::collections::HashMap::new();
        for kr in &insts {
            cx.begin_case(json!({"pw": desc(pw), "registration_ksf": inst_name(*kr)}));
            cx.state(&(pw, kr, "reg"));
            cx.path();
            let mut rt = Tape::seeded(seed, "c15/reg");
            let (req, creg) = match api.reg_start(&mut rt, pw) {
                Ok(x) => x,
                Err(e) => {
                    cx.violate("honest-step/error", format!("{:?}", e));
                    continue;
                }
            };
            let resp = match api.sreg_start(&Blob::n(&setup), &Blob::n(&req), b"alice") {
                Ok(x) => x,
                Err(e) => {
                    cx.violate("honest-step/error", format!("{:?}", e));
                    continue;
                }
            };
            api.ksf_arm(None);
            let r = api.reg_finish(&mut rt, &Blob::n(&creg), pw, &Blob::n(&resp), None, None, *kr);
            let log = api.ksf_log();
            cx.edges += 1;
            match r {
                Ok((up, ek, _)) => {
                    if probe {
                        if log.len() != 1 {
                            cx.violate("registration/ksf-call-count", format!("the KSF was called {} times in the registration finish step, expected exactly 1", log.len()));
                        } else {
                            if log[0].0 != eff(*kr) {
                                cx.violate("registration/wrong-ksf-instance", format!("registration used KSF instance {} although {} was passed", log[0].0, inst_name(*kr)));
                            }
                            // "on the OPRF output": decided without the model's OPRF (whether the value is the RFC's
                            // Finalize output is C09's business) - the value y the stretching function is called on must
                            // be hash-length, not the raw password, the same at registration and at login for the same
                            // (password, seed, credential id), and different for different passwords; that its result
                            // feeds the secrets is decided by comparing registrations under different instances below.
                            let y = &log[0].1;
                            reg_y.insert(eff(*kr), y.clone());
                            ys_by_pw.push((pw.to_vec(), y.clone()));
                            if y.len() != sp.nh() || &y[..] == &pw[..y.len().min(pw.len())] && !pw.is_empty() && y.len() == pw.len() {
                                cx.violate("registration/ksf-input", "the stretching function was not called on a hash-length OPRF output".into());
                            }
                        }
                        // failure injection at call 1 and 2
                        for n in [1usize, 2] {
                            let mut rt2 = Tape::seeded(seed, "c15/reg-fail");
                            let _ = api.reg_start(&mut rt2, pw);
                            api.ksf_arm(Some(n));
                            let rf = api.reg_finish(&mut rt2, &Blob::n(&creg), pw, &Blob::n(&resp), None, None, *kr);
                            api.ksf_arm(None);
                            cx.edges += 1;
                            match (n, rf) {
                                (1, Err(E::Panic(m))) => cx.violate("registration/ksf-failure-panics", m),
                                (1, Err(_)) => cx.outcome("ksf-failure-returned-as-error"),
                                (1, Ok(_)) => cx.violate("registration/ksf-failure-swallowed", "registration finish succeeds although the KSF failed".into()),
                                (_, Ok(_)) => cx.outcome("ksf-second-call-never-made"),
                                (_, Err(e)) => cx.violate("registration/ksf-called-twice", format!("a failure armed for the 2nd KSF call fires: {:?}", e)),
                            }
                        }
                    }
                    uploads.push((*kr, up, ek));
                }
                Err(e) => cx.violate("registration/error", format!("registration with KSF {} fails: {:?}", inst_name(*kr), e)),
            }
        }
        // explicit default == absent, byte for byte
        if let (Some(a), Some(b)) = (uploads.iter().find(|u| u.0.is_none()), uploads.iter().find(|u| u.0 == Some(0))) {
            if a.1 != b.1 || a.2 != b.2 {
                cx.violate_case("default-vs-explicit-default-differ", "passing the default KSF instance explicitly gives a different upload/export key than passing none".into(), json!({"pw": desc(pw)}));
            } else {
                cx.outcome("explicit-default-equals-absent");
            }
        }
        // different instances must give different secrets
        for i in 0..uploads.len() {
            for j in 0..i {
                if eff(uploads[i].0) != eff(uploads[j].0) {
                    let mk = sp.field(Kind::Upload, "masking_key");
                    if mk.of(&uploads[i].1) == mk.of(&uploads[j].1) || uploads[i].2 == uploads[j].2 {
                        cx.violate_case("ksf-not-bound-into-secrets", format!("registrations under KSF {} and {} share a masking key or export key", inst_name(uploads[i].0), inst_name(uploads[j].0)), json!({"pw": desc(pw)}));
                    }
                }
            }
        }
        // logins: every (registration instance, login instance)
        for (kr, up, ek) in &uploads {
            let file = match api.sreg_finish(&Blob::n(up)) {
                Ok(f) => f,
                Err(e) => {
                    cx.violate_case("honest-step/error", format!("{:?}", e), json!({}));
                    continue;
                }
            };
            let mut lt = Tape::seeded(seed, "c15/login");
            let (ke1, cst) = match api.login_start(&mut lt, pw) {
                Ok(x) => x,
                Err(_) => continue,
            };
            let (ke2, sst) = match api.slogin_start(&mut lt, &Blob::n(&setup), Some(&Blob::n(&file)), &Blob::n(&ke1), b"alice", None, None, None) {
                Ok(x) => x,
                Err(_) => continue,
            };
            for kl in &insts {
                cx.begin_case(json!({"pw": desc(pw), "registration_ksf": inst_name(*kr), "login_ksf": inst_name(*kl)}));
                cx.state(&(pw, kr, kl));
                cx.path();
                cx.edges += 1;
                api.ksf_arm(None);
                let r = api.login_finish(&Blob::n(&cst), pw, &Blob::n(&ke2), None, None, None, *kl);
                let log = api.ksf_log();
                if probe {
                    if log.len() != 1 {
                        cx.violate("login/ksf-call-count", format!("the KSF was called {} times in the login finish step, expected exactly 1", log.len()));
                    } else if log[0].0 != eff(*kl) {
                        cx.violate("login/wrong-ksf-instance", format!("login used KSF instance {} although {} was passed", log[0].0, inst_name(*kl)));
                    } else if reg_y.get(&eff(*kr)).map_or(false, |y| y != &log[0].1) {
                        cx.violate("login/ksf-input", "the stretching function is called on a different value at login than at registration (same password, seed and credential id): not the deterministic OPRF output".into());
                    }
                }
                let same = eff(*kr) == eff(*kl);
                match (r, same) {
                    (Ok((fin, sk, ek2, _)), true) => {
                        if &ek2 != ek || api.slogin_finish(&Blob::n(&sst), &Blob::n(&fin)).ok() != Some(sk) {
                            cx.violate("login/equal-ksf-keys-differ", "login under equal stretching parameters does not reproduce the keys".into());
                        }
                        cx.outcome("equal-ksf-login-succeeds");
                    }
                    (Err(e), true) => cx.violate("login/equal-ksf-fails", format!("login under equal stretching parameters fails: {:?}", e)),
                    (Err(_), false) => cx.outcome("different-ksf-login-fails"),
                    (Ok(_), false) => {
                        cx.outcome("DIFFERENT-KSF-LOGIN-SUCCEEDS");
                        cx.violate("login/different-ksf-succeeds", format!("login succeeds although registration used KSF {} and login {}", inst_name(*kr), inst_name(*kl)));
                    }
                }
                if probe && same {
                    api.ksf_arm(Some(1));
                    let rf = api.login_finish(&Blob::n(&cst), pw, &Blob::n(&ke2), None, None, None, *kl);
                    api.ksf_arm(None);
                    cx.edges += 1;
                    match rf {
                        Err(E::Panic(m)) => cx.violate("login/ksf-failure-panics", m),
                        // InvalidLoginError is the library's statement "wrong password / unknown user" (C02, C08): a
                        // stretching failure with the RIGHT password reported that way is not returned as what it is
                        Err(E::InvalidLogin) => cx.violate("login/ksf-failure-reported-as-invalid-login", "the stretching function failed during a login with the correct password and the client reports InvalidLoginError (wrong password) instead of the failure".into()),
                        Err(_) => cx.outcome("ksf-failure-returned-as-error"),
                        Ok(_) => cx.violate("login/ksf-failure-swallowed", "login finish succeeds although the KSF failed".into()),
                    }
                }
            }
        }
    }
    for i in 0..ys_by_pw.len() {
        for j in 0..i {
            if ys_by_pw[i].0 != ys_by_pw[j].0 && ys_by_pw[i].1 == ys_by_pw[j].1 {
                cx.violate_case("ksf-input/ignores-password", "the stretching function is called on the same value for two different passwords".into(), json!({}));
            }
        }
    }
    cx.sample(json!({"suite": api.name(), "family": api.s.family(), "instances": insts.iter().map(|k| inst_name(*k)).collect::<Vec<_>>(), "passwords": pws.len()}));
}

pub fn run(tier: Tier, seed: u64) -> i32 {
    let t0 = Instant::now();
    crate::vectors::require();
    let mut items = apis_of(crate::adapter::probe::suites());
    items.extend(apis_of(crate::adapter::argon::suites()));
    // a zero-sized user-defined stretching function (struct MyKsf;)
    items.extend(apis_of(crate::adapter::unit::suites()));
    let mut tot = Totals::default();
    tot.merge(fw::run_items("C15", &items, |a| format!("{}:{}", a.s.family(), a.name()), |api, cx| explore(api, seed, cx)));
    let rep = Report {
        property: "C15",
        tier,
        seed,
        rule: "complete product of (registration KSF instance, login KSF instance) over {absent, explicit default, id1, id2} x 2 passwords on the 20 suites instantiated with a harness-defined logging KSF, failure injected at the 1st and 2nd call of every finish step; Argon2 {absent, explicit default, non-default cost, same cost but Argon2i / version 0x10 / keyed}^2 on 3 suites".into(),
        bounds: json!({"probe_suites": 20, "argon2_suites": 3, "instances": 4, "fault_positions": [1, 2], "quick_equals_thorough": true}),
        assumptions: vec!["KSF calls are observed through a harness-defined implementation of the public Ksf trait (thread-local log)".into()],
        exhaustive: true,
        crosscheck: json!(null),
    };
    fw::finish(rep, tot, t0)
}
