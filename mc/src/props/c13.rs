//! C13 - persisted state survives save / restart unchanged.
//! Crash-point LTS over the honest flow.  Persistence points: server setup before registration start (P1), client
//! registration state (P2), password file (P3), server setup before login start (P4), client login state (P5),
//! server login state (P6).  At each point the action is the reload choice in {no reload, native, bincode, JSON}
//! (thorough: also the double reloads native->JSON->bincode and bincode->native->JSON); the reloaded OBJECT (in that
//! codec) is what the next protocol step consumes.  A state is (step, every artefact produced so far); because the
//! steps are pure functions of those bytes, equal states have equal futures and merge - so the breadth-first search
//! covers all 4^6 (resp. 6^6) reload subsets while executing each distinct (state, choice) once.  Oracle
//! (differential): every state equals the uninterrupted run's state at that step on the same tapes; and each
//! reloaded object re-serializes natively to the bytes that were saved.  The thorough tier additionally executes all
//! 4096 flows explicitly, without merging, on the two fastest suites.
use super::common::*;
use crate::adapter::{Blob, Codec};
use crate::api::Api;
use crate::explore::{self, Lts};
use crate::flow::{o, Params};
use crate::fw::{self, h128, Cx, Report, Tier, Totals};
use crate::refmodel::Kind;
use crate::tape::Tape;
use serde_json::{json, Value};
use std::time::Instant;

/// a reload choice: chain of codecs the object goes through (empty = no reload)
type Chain = Vec<Codec>;

fn chains(thorough: bool) -> Vec<Chain> {
    let mut v = vec![vec![], vec![Codec::Native], vec![Codec::Bincode], vec![Codec::Json]];
    if thorough {
        v.push(vec![Codec::Native, Codec::Json, Codec::Bincode]);
        v.push(vec![Codec::Bincode, Codec::Native, Codec::Json]);
    }
    v
}

#[derive(Clone, Debug, PartialEq)]
struct Act {
    /// reload choice for each persisted object the next step consumes (1 or 2 of them)
    ch: Vec<Chain>,
}

#[derive(Clone, Default, Hash, PartialEq, Eq, Debug)]
struct Arts {
    setup: Vec<u8>,
    req: Vec<u8>,
    creg: Vec<u8>,
    resp: Vec<u8>,
    upload: Vec<u8>,
    export_reg: Vec<u8>,
    file: Vec<u8>,
    ke1: Vec<u8>,
    clogin: Vec<u8>,
    ke2: Vec<u8>,
    slogin: Vec<u8>,
    ke3: Vec<u8>,
    sk_c: Vec<u8>,
    export_login: Vec<u8>,
    sk_s: Vec<u8>,
}
#[derive(Clone)]
struct St {
    step: usize,
    a: Arts,
}
struct World {
    api: Api,
    p: Params,
    label: String,
    seed: u64,
    thorough: bool,
    baseline: Vec<Arts>,
}

/// tape positions are a function of the step (each randomised step uses its own labelled tape)
fn tape_for(seed: u64, label: &str, step: usize) -> Tape {
    Tape::seeded(seed, &format!("c13/{}/step{}", label, step))
}

impl World {
    /// apply a reload chain to a persisted object: returns the blob the next step will consume
    fn reload(&self, kind: Kind, native: &[u8], ch: &Chain, cx: &mut Cx) -> Option<Blob> {
        let mut b = Blob::n(native);
        if ch.is_empty() {
            return Some(b);
        }
        for c in ch {
            b = match self.api.recode(kind, &b, *c) {
                Ok(x) => x,
                Err(e) => {
                    cx.violate(&format!("reload-fails/{}/{:?}", kind.name(), c), format!("saving/reloading a valid {} through {:?} fails: {:?}", kind.name(), ch, e));
                    return None;
                }
            };
        }
        // the reloaded object must re-serialize natively to the bytes that were saved
        match self.api.recode(kind, &b, Codec::Native) {
            Ok(x) if x.bytes == native => {}
            Ok(_) => cx.violate(&format!("reload-changes-object/{}/{:?}", kind.name(), ch.last().unwrap()), format!("a {} reloaded through {:?} re-serializes to different bytes", kind.name(), ch)),
            Err(e) => cx.violate(&format!("reload-fails/{}/{:?}", kind.name(), ch.last().unwrap()), format!("{:?}", e)),
        }
        Some(b)
    }
    /// execute protocol step `step` from artefacts `a`, consuming persisted objects through the given chains
    fn exec(&self, step: usize, a: &Arts, ch: &[Chain], cx: &mut Cx) -> Option<Arts> {
        let api = &self.api;
        let p = &self.p;
        let mut n = a.clone();
        let none: Chain = vec![];
        let c0 = ch.first().unwrap_or(&none);
        let c1 = ch.get(1).unwrap_or(&none);
        let mut t = tape_for(self.seed, &self.label, step);
        let r: Result<(), String> = (|| {
            match step {
                0 => n.setup = api.setup(&mut t).map_err(|e| format!("setup {:?}", e))?,
                1 => {
                    let (q, s) = api.reg_start(&mut t, &p.pw).map_err(|e| format!("reg_start {:?}", e))?;
                    n.req = q;
                    n.creg = s;
                }
                2 => {
                    let sb = self.reload(Kind::Setup, &a.setup, c0, cx).ok_or("reload")?;
                    n.resp = api.sreg_start(&sb, &Blob::n(&a.req), &p.cid).map_err(|e| format!("sreg_start {:?}", e))?;
                }
                3 => {
                    let cb = self.reload(Kind::CReg, &a.creg, c0, cx).ok_or("reload")?;
                    let (u, e, _) = api.reg_finish(&mut t, &cb, &p.pw, &Blob::n(&a.resp), o(&p.idu), o(&p.ids), None).map_err(|e| format!("reg_finish {:?}", e))?;
                    n.upload = u;
                    n.export_reg = e;
                }
                4 => n.file = api.sreg_finish(&Blob::n(&a.upload)).map_err(|e| format!("sreg_finish {:?}", e))?,
                5 => {
                    let (k, s) = api.login_start(&mut t, &p.pw).map_err(|e| format!("login_start {:?}", e))?;
                    n.ke1 = k;
                    n.clogin = s;
                }
                6 => {
                    let sb = self.reload(Kind::Setup, &a.setup, c0, cx).ok_or("reload")?;
                    let fb = self.reload(Kind::File, &a.file, c1, cx).ok_or("reload")?;
                    let (k, s) = api.slogin_start(&mut t, &sb, Some(&fb), &Blob::n(&a.ke1), &p.cid, o(&p.ctx), o(&p.idu), o(&p.ids)).map_err(|e| format!("slogin_start {:?}", e))?;
                    n.ke2 = k;
                    n.slogin = s;
                }
                7 => {
                    let cb = self.reload(Kind::CLogin, &a.clogin, c0, cx).ok_or("reload")?;
                    let (k3, sk, ek, _) = api.login_finish(&cb, &p.pw, &Blob::n(&a.ke2), o(&p.ctx), o(&p.idu), o(&p.ids), None).map_err(|e| format!("login_finish {:?}", e))?;
                    n.ke3 = k3;
                    n.sk_c = sk;
                    n.export_login = ek;
                }
                8 => {
                    let sb = self.reload(Kind::SLogin, &a.slogin, c0, cx).ok_or("reload")?;
                    n.sk_s = api.slogin_finish(&sb, &Blob::n(&a.ke3)).map_err(|e| format!("slogin_finish {:?}", e))?;
                }
                _ => unreachable!(),
            }
            Ok(())
        })();
        match r {
            Ok(()) => Some(n),
            Err(e) => {
                if e != "reload" {
                    cx.violate(&format!("step-fails-after-reload/{}", STEPS[step]), format!("step {} fails after reload choice {:?}: {}", STEPS[step], ch, e));
                }
                None
            }
        }
    }
}
const STEPS: [&str; 9] = ["setup", "reg_start", "sreg_start", "reg_finish", "sreg_finish", "login_start", "slogin_start", "login_finish", "slogin_finish"];
/// number of persisted objects step i consumes
fn consumed(step: usize) -> usize {
    match step {
        2 | 3 | 7 | 8 => 1,
        6 => 2,
        _ => 0,
    }
}

impl Lts for World {
    type S = St;
    type A = Act;
    fn init(&self, _cx: &mut Cx) -> Vec<St> {
        vec![St { step: 0, a: Arts::default() }]
    }
    fn key(&self, s: &St) -> u128 {
        h128(&(s.step, &s.a))
    }
    fn actions(&self, s: &St) -> Vec<Act> {
        if s.step >= 9 {
            return vec![];
        }
        let cs = chains(self.thorough);
        match consumed(s.step) {
            0 => vec![Act { ch: vec![] }],
            1 => cs.iter().map(|c| Act { ch: vec![c.clone()] }).collect(),
            _ => {
                let mut v = vec![];
                for a in &cs {
                    for b in &cs {
                        v.push(Act { ch: vec![a.clone(), b.clone()] });
                    }
                }
                v
            }
        }
    }
    fn step(&self, s: &St, a: &Act, cx: &mut Cx) -> Option<St> {
        self.exec(s.step, &s.a, &a.ch, cx).map(|n| St { step: s.step + 1, a: n })
    }
    fn check(&self, s: &St, cx: &mut Cx) {
        if s.step == 0 {
            return;
        }
        if s.a != self.baseline[s.step] {
            // name the first artefact that differs
            let (b, x) = (&self.baseline[s.step], &s.a);
            let names = ["setup", "req", "creg", "resp", "upload", "export_reg", "file", "ke1", "clogin", "ke2", "slogin", "ke3", "session_key(client)", "export_login", "session_key(server)"];
            let av = [&x.setup, &x.req, &x.creg, &x.resp, &x.upload, &x.export_reg, &x.file, &x.ke1, &x.clogin, &x.ke2, &x.slogin, &x.ke3, &x.sk_c, &x.export_login, &x.sk_s];
            let bv = [&b.setup, &b.req, &b.creg, &b.resp, &b.upload, &b.export_reg, &b.file, &b.ke1, &b.clogin, &b.ke2, &b.slogin, &b.ke3, &b.sk_c, &b.export_login, &b.sk_s];
            let which = (0..names.len()).find(|i| av[*i] != bv[*i]).map(|i| names[i]).unwrap_or("?");
            cx.outcome("DIVERGED");
            cx.violate(&format!("diverges/{}/{}", STEPS[s.step - 1], which), format!("after step {} the artefact '{}' differs from the uninterrupted run on the same randomness", STEPS[s.step - 1], which));
        } else {
            cx.outcome("equals-uninterrupted-run");
        }
        if s.step == 9 && (s.a.sk_c != s.a.sk_s || s.a.export_login != s.a.export_reg) {
            cx.violate("final/keys", "final keys disagree".into());
        }
    }
    fn describe(&self, a: &Act) -> Value {
        json!(a.ch.iter().map(|c| if c.is_empty() { "no-reload".to_string() } else { c.iter().map(|x| format!("{:?}", x)).collect::<Vec<_>>().join("->") }).collect::<Vec<_>>())
    }
}

fn world(api: &Api, setting_ix: usize, tape_ix: usize, thorough: bool, seed: u64) -> Result<World, String> {
    let mut w = World { api: *api, p: setting(setting_ix), label: format!("s{}t{}", setting_ix, tape_ix), seed, thorough, baseline: vec![Arts::default()] };
    let mut cx = Cx::new("C13", api.name());
    let mut a = Arts::default();
    for step in 0..9 {
        a = w.exec(step, &a, &[], &mut cx).ok_or_else(|| format!("uninterrupted run fails at {}: {:?}", STEPS[step], cx.violations.first().map(|v| v.what.clone())))?;
        w.baseline.push(a.clone());
    }
    Ok(w)
}

pub fn run(tier: Tier, seed: u64) -> i32 {
    let t0 = Instant::now();
    let mut items = vec![];
    for api in all_apis() {
        for s in 0..2 {
            for tp in 0..2 {
                items.push((api, s, tp));
            }
        }
    }
    let nch = chains(tier.thorough()).len() as u64;
    let models = std::sync::Mutex::new(vec![]);
    let mut tot = Totals::default();
    tot.merge(fw::run_items("C13", &items, |(a, _, _)| a.name().to_string(), |(api, s, tp), cx| match world(api, *s, *tp, tier.thorough(), seed) {
        Ok(w) => {
            let st = explore::bfs(&w, cx, 100_000);
            // paths through the merged graph = product of the choices at the six persistence points
            let paths = nch.pow(6);
            cx.add("reload_subsets_covered_by_state_merging", paths);
            if models.lock().unwrap().len() < 4 {
                models.lock().unwrap().push(json!({"suite": api.name(), "states": st.states, "edges": st.edges, "depth": st.max_depth, "paths_in_merged_graph": paths}));
            }
            cx.sample(json!({"suite": api.name(), "setting": w.p.describe(), "tape": tp, "persistence_points": ["setup@sreg_start", "client_registration@reg_finish", "setup@slogin_start", "password_file@slogin_start", "client_login@login_finish", "server_login@slogin_finish"], "choices_per_point": nch}));
        }
        Err(e) => cx.violate_case("honest-step/error", e, json!({})),
    }));
    // (b) truly uninterrupted baseline: the whole flow with every party's state kept in memory as typed objects,
    // against the same flow with reloads at <=2 (quick) / <=3 (thorough) of the six persistence points (and all 4^6
    // subsets on the two fastest suites in the thorough tier).  This sees defects that a byte-level harness cannot:
    // one where serialize() itself loses or confuses a field, so that only the never-serialized object is right.
    {
        // choice 4 = an in-memory copy through the type's Clone impl (the weakest form of "saving" an object)
        let mut cs = chains(false);
        cs.push(vec![Codec::Clone]);
        let k = if tier.thorough() { 3 } else { 2 };
        let mut plans: Vec<Vec<usize>> = crate::alphabet::deviations(&[5, 5, 5, 5, 5, 5], k);
        plans.push(vec![4, 4, 4, 4, 4, 4]);
        if tier.thorough() {
            plans.push(vec![1, 1, 1, 1, 1, 1]);
            plans.push(vec![2, 2, 2, 2, 2, 2]);
            plans.push(vec![3, 3, 3, 3, 3, 3]);
        }
        let mut items = vec![];
        for api in all_apis() {
            for s in 0..2 {
                items.push((api, s, plans.clone()));
            }
        }
        if tier.thorough() {
            for api in all_apis().into_iter().take(2) {
                items.push((api, 1, crate::alphabet::product(&[4, 4, 4, 4, 4, 4])));
            }
        }
        tot.merge(fw::run_items("C13", &items, |(a, _, _)| a.name().to_string(), |(api, s, plans), cx| {
            let p = setting(*s);
            let label = format!("seed{}/c13/mem/{}", seed, s);
            let none: [Chain; 6] = Default::default();
            let base = match api.flow_in_memory(&mut Tape::new(&label), &p.pw, &p.cid, o(&p.ctx), o(&p.idu), o(&p.ids), &none) {
                Ok(b) => b,
                Err((st, e)) => {
                    cx.violate_case("honest-step/in-memory-flow", format!("uninterrupted in-memory flow fails at step {}: {:?}", st, e), json!({}));
                    return;
                }
            };
            cx.context_done();
            for ix in plans {
                let plan: [Chain; 6] = [cs[ix[0]].clone(), cs[ix[1]].clone(), cs[ix[2]].clone(), cs[ix[3]].clone(), cs[ix[4]].clone(), cs[ix[5]].clone()];
                cx.begin_case(json!({"reload_plan": {"setup@registration": format!("{:?}", plan[0]), "client_registration": format!("{:?}", plan[1]), "password_file": format!("{:?}", plan[2]), "setup@login": format!("{:?}", plan[3]), "client_login": format!("{:?}", plan[4]), "server_login": format!("{:?}", plan[5])}, "setting": s}));
                if !cx.state(&("mem", s, ix)) {
                    continue;
                }
                cx.edges += 1;
                cx.path();
                match api.flow_in_memory(&mut Tape::new(&label), &p.pw, &p.cid, o(&p.ctx), o(&p.idu), o(&p.ids), &plan) {
                    Ok(f) if f == base => cx.outcome("equals-in-memory-run"),
                    Ok(f) => {
                        let names = ["setup", "req", "resp", "upload", "export_reg", "spk_reg", "file", "ke1", "ke2", "ke3", "session_key(client)", "export_login", "spk_login", "session_key(server)", "no-record response", "no-record server state"];
                        let av = [&f.setup, &f.req, &f.resp, &f.upload, &f.export_reg, &f.spk_reg, &f.file, &f.ke1, &f.ke2, &f.ke3, &f.sk_client, &f.export_login, &f.spk_login, &f.sk_server, &f.fake_ke2, &f.fake_state];
                        let bv = [&base.setup, &base.req, &base.resp, &base.upload, &base.export_reg, &base.spk_reg, &base.file, &base.ke1, &base.ke2, &base.ke3, &base.sk_client, &base.export_login, &base.spk_login, &base.sk_server, &base.fake_ke2, &base.fake_state];
                        let which = (0..names.len()).find(|i| av[*i] != bv[*i]).map(|i| names[i]).unwrap_or("?");
                        let pts = ["setup@registration", "client_registration", "password_file", "setup@login", "client_login", "server_login"];
                        let first = (0..6).find(|i| ix[*i] != 0).map(|i| format!("{}/{:?}", pts[i], cs[ix[i]])).unwrap_or_default();
                        cx.outcome("DIVERGED");
                        cx.violate(&format!("in-memory/diverges/{}/{}", first, which), format!("with reloads {:?} the artefact '{}' differs from the run whose state never left memory", ix, which));
                    }
                    Err((st, e)) => {
                        let pts = ["setup@registration", "client_registration", "password_file", "setup@login", "client_login", "server_login"];
                        let first = (0..6).find(|i| ix[*i] != 0).map(|i| format!("{}/{:?}", pts[i], cs[ix[i]])).unwrap_or_default();
                        cx.outcome("FAILED-AFTER-RELOAD");
                        cx.violate(&format!("in-memory/fails-after-reload/{}", first), format!("with reloads {:?} the flow fails at step {}: {:?}", ix, st, e));
                    }
                }
            }
            // also without a password file: a reloaded setup must serve unregistered users identically
            cx.sample(json!({"suite": api.name(), "part": "in-memory baseline", "plans": plans.len()}));
        }));
    }
    // (c) many generators, reload everywhere: key-dependent persistence defects (a decoder that refuses one valid key in
    // 64) need the key to come up; 64 (quick) / 512 (thorough) tapes per suite, every object reloaded in each codec
    {
        let cs = chains(false);
        let nt = if tier.thorough() { 512 } else { 64 };
        let mut items = vec![];
        for api in all_apis() {
            for chunk in 0..(nt / 16) {
                items.push((api, chunk));
            }
        }
        tot.merge(fw::run_items("C13", &items, |(a, _)| a.name().to_string(), |(api, chunk), cx| {
            let p = setting(1);
            let none: [Chain; 6] = Default::default();
            cx.context_done();
            for t in (*chunk * 16)..(*chunk * 16 + 16) {
                let label = format!("seed{}/c13/mem/t{}", seed, t);
                cx.begin_case(json!({"tape": label, "reload": "every persistence point"}));
                let base = match api.flow_in_memory(&mut Tape::new(&label), &p.pw, &p.cid, o(&p.ctx), o(&p.idu), o(&p.ids), &none) {
                    Ok(b) => b,
                    Err((st, e)) => {
                        cx.violate(&format!("honest-step/in-memory-flow/{}", st), format!("uninterrupted in-memory flow fails at step {}: {:?}", st, e));
                        continue;
                    }
                };
                for c in 1..cs.len() {
                    if !cx.state(&("memtape", t, c)) {
                        continue;
                    }
                    cx.edges += 1;
                    cx.path();
                    let plan: [Chain; 6] = [cs[c].clone(), cs[c].clone(), cs[c].clone(), cs[c].clone(), cs[c].clone(), cs[c].clone()];
                    match api.flow_in_memory(&mut Tape::new(&label), &p.pw, &p.cid, o(&p.ctx), o(&p.idu), o(&p.ids), &plan) {
                        Ok(f) if f == base => cx.outcome("equals-in-memory-run"),
                        Ok(_) => {
                            cx.outcome("DIVERGED");
                            cx.violate(&format!("in-memory/diverges/all/{:?}", cs[c]), format!("with every object reloaded through {:?} the flow differs from the run whose state never left memory", cs[c]));
                        }
                        Err((st, e)) => {
                            cx.outcome("FAILED-AFTER-RELOAD");
                            cx.violate(&format!("in-memory/fails-after-reload/all/{:?}", cs[c]), format!("with every object reloaded through {:?} the flow fails at step {}: {:?} (the in-memory run on the same generator succeeds)", cs[c], st, e));
                        }
                    }
                }
            }
        }));
    }
    // thorough: every one of the 4^6 flows explicitly, no merging, on the two fastest suites
    let mut explicit = 0u64;
    if tier.thorough() {
        let cs = chains(false);
        let mut items = vec![];
        for api in all_apis().into_iter().take(2) {
            for ix in crate::alphabet::product(&[4, 4, 4, 4, 4, 4]) {
                items.push((api, ix));
            }
        }
        explicit = items.len() as u64;
        let worlds: Vec<World> = all_apis().into_iter().take(2).map(|a| world(&a, 1, 0, false, seed).unwrap()).collect();
        tot.merge(fw::run_items("C13", &items, |(a, _)| a.name().to_string(), |(api, ix), cx| {
            let w = worlds.iter().find(|w| w.api.name() == api.name()).unwrap();
            cx.begin_case(json!({"explicit_flow": ix}));
            cx.state(&ix);
            let mut a = Arts::default();
            for step in 0..9 {
                let ch: Vec<Chain> = match step {
                    2 => vec![cs[ix[0]].clone()],
                    3 => vec![cs[ix[1]].clone()],
                    6 => vec![cs[ix[2]].clone(), cs[ix[3]].clone()],
                    7 => vec![cs[ix[4]].clone()],
                    8 => vec![cs[ix[5]].clone()],
                    _ => vec![],
                };
                a = match w.exec(step, &a, &ch, cx) {
                    Some(x) => x,
                    None => return,
                };
            }
            if a != w.baseline[9] {
                cx.violate("explicit-flow-diverges", "an explicitly executed reload subset ends in a different state than the uninterrupted run".into());
            } else {
                cx.outcome("explicit-flow-equals-uninterrupted-run");
            }
            cx.path();
        }));
    }
    // stateright cross-count of the merged crash-point LTS (thorough)
    let mut cross = json!(null);
    if tier.thorough() {
        let api = all_apis()[0];
        if let (Ok(w1), Ok(w2)) = (world(&api, 1, 0, true, seed), world(&api, 1, 0, true, seed)) {
            let mut cx = Cx::new("C13", api.name());
            let mine = explore::bfs(&w1, &mut cx, 100_000);
            let (s, d) = explore::stateright_count(w2, 16);
            cross = json!({"suite": api.name(), "mine": {"states": mine.states, "depth": mine.max_depth}, "stateright": {"states": s, "depth": d}, "agree": s == mine.states && d == mine.max_depth});
            if !(s == mine.states && d == mine.max_depth) {
                tot.machinery_errors.push(format!("stateright cross-count disagrees: {}", cross));
            }
        }
    }
    let rep = Report {
        property: "C13",
        tier,
        seed,
        rule: "explicit-state BFS of the crash-point LTS (reload choice at each of six persistence points; the reloaded object in the chosen codec is consumed by the next real step); states = (step, all artefacts) merge when byte-equal; differential oracle against the uninterrupted run; 2 settings x 2 tapes x 20 suites".into(),
        bounds: json!({"suites": 20, "settings": 2, "tapes": 2, "choices_per_point": nch, "reload_subsets_per_flow": nch.pow(6), "explicit_unmerged_flows": explicit, "models": models.into_inner().unwrap()}),
        assumptions: vec!["state merging is sound because every step is a pure function of the bytes in the state and the tape of that step (C17 decides that determinism)".into()],
        exhaustive: true,
        crosscheck: cross,
    };
    fw::finish(rep, tot, t0)
}
