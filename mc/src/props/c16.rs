//! C16 - the export key is stable, separated and never leaves the client.
//! LTS: histories over 2 users x 2 passwords x 2 servers with actions Register(u, pw, srv) and Login(u, srv, ctx);
//! state = current record map + tape position + everything ever sent.  Invariant per transition: a successful
//! login's export key equals the one returned by the registration that produced the record it ran against; the
//! export keys of all distinct registrations of the history are pairwise distinct; no export key, session key or
//! (>= 16 byte) password occurs verbatim in any message or password file produced so far.
use super::common::*;
use crate::api::Api;
use crate::explore::{self, Lts};
use crate::flow;
use crate::fw::{self, h128, Cx, Report, Tier, Totals};
use crate::tape::Tape;
use serde_json::{json, Value};
use std::time::Instant;

const PWS: [&[u8]; 2] = [b"correct horse battery staple", b"another 20-byte pass"];
const USERS: [&[u8]; 2] = [b"alice", b"bob"];

#[derive(Clone, Debug, PartialEq)]
pub enum Act {
    Register { u: usize, pw: usize, srv: usize },
    /// a registration whose finish step runs on a generator that fails (environment fault): it must either be refused
    /// or still produce a fresh export key
    RegisterRngFails { u: usize, pw: usize, srv: usize },
    Login { u: usize, srv: usize, ctx: bool },
}
#[derive(Clone)]
pub struct Rec {
    file: Vec<u8>,
    export: Vec<u8>,
    pw: usize,
}
#[derive(Clone)]
pub struct St {
    pos: usize,
    regs: usize,
    logins: usize,
    /// record map: (user, server) -> record
    recs: Vec<Option<Rec>>,
    /// export keys of every registration of this history
    exports: Vec<Vec<u8>>,
    secrets: Vec<Vec<u8>>,
    wire: Vec<Vec<u8>>,
}
pub struct World {
    api: Api,
    mode: Mode,
    setups: Vec<Vec<u8>>,
    max_regs: usize,
    max_logins: usize,
    nsrv: usize,
    seed: u64,
}
impl Lts for World {
    type S = St;
    type A = Act;
    fn init(&self, _cx: &mut Cx) -> Vec<St> {
        vec![St { pos: 0, regs: 0, logins: 0, recs: vec![None; 4], exports: vec![], secrets: PWS.iter().map(|p| p.to_vec()).collect(), wire: vec![] }]
    }
    fn key(&self, s: &St) -> u128 {
        let r: Vec<Option<(&Vec<u8>, &Vec<u8>)>> = s.recs.iter().map(|r| r.as_ref().map(|r| (&r.file, &r.export))).collect();
        h128(&(s.pos, s.regs, s.logins, r, &s.exports))
    }
    fn actions(&self, s: &St) -> Vec<Act> {
        let mut v = vec![];
        if s.regs < self.max_regs {
            for u in 0..2 {
                for pw in 0..2 {
                    for srv in 0..self.nsrv {
                        v.push(Act::Register { u, pw, srv });
                    }
                    if self.mode == Mode::Own && u == 0 && pw == 0 {
                        v.push(Act::RegisterRngFails { u, pw, srv: 0 });
                    }
                }
            }
        }
        if s.logins < self.max_logins {
            for u in 0..2 {
                for srv in 0..self.nsrv {
                    if s.recs[u * 2 + srv].is_some() {
                        for ctx in [false, true] {
                            v.push(Act::Login { u, srv, ctx });
                        }
                    }
                }
            }
        }
        v
    }
    fn step(&self, s: &St, a: &Act, cx: &mut Cx) -> Option<St> {
        let mut n = s.clone();
        let mut t = Tape::seeded(self.seed, "c16");
        t.pos = s.pos;
        match a {
            Act::Register { u, pw, srv } => match flow::register(&self.api, &mut t, &self.setups[*srv], PWS[*pw], USERS[*u], None, None, None) {
                Ok(r) => {
                    if self.mode == Mode::Own && n.exports.contains(&r.export) {
                        cx.violate("export-key/not-separated", "a new registration returns an export key that an earlier registration of this history already returned".into());
                    }
                    n.exports.push(r.export.clone());
                    n.secrets.push(r.export.clone());
                    n.wire.extend([r.req.clone(), r.resp.clone(), r.upload.clone(), r.file.clone()]);
                    n.recs[u * 2 + srv] = Some(Rec { file: r.file, export: r.export, pw: *pw });
                    n.regs += 1;
                }
                Err(e) => {
                    honest_fail(cx, self.mode, "registration-fails", format!("an honest registration in a history fails at {}: {:?}", e.step, e.e));
                    return None;
                }
            },
            Act::RegisterRngFails { u, pw, srv } => {
                use crate::adapter::Blob;
                let api = &self.api;
                let r = (|| -> Result<Option<(Vec<u8>, Vec<u8>, Vec<u8>, Vec<u8>)>, String> {
                    let (req, creg) = api.reg_start(&mut t, PWS[*pw]).map_err(|e| format!("{:?}", e))?;
                    let resp = api.sreg_start(&Blob::n(&self.setups[*srv]), &Blob::n(&req), USERS[*u]).map_err(|e| format!("{:?}", e))?;
                    t.fail_at = Some(t.pos);
                    let fin = api.reg_finish(&mut t, &Blob::n(&creg), PWS[*pw], &Blob::n(&resp), None, None, None);
                    t.fail_at = None;
                    match fin {
                        Err(_) => Ok(None),
                        Ok((up, ek, _)) => Ok(Some((req, resp, up, ek))),
                    }
                })();
                match r {
                    Err(e) => {
                        honest_fail(cx, self.mode, "registration-fails", e);
                        return None;
                    }
                    Ok(None) => {
                        cx.outcome("registration-refused-when-rng-fails");
                        n.regs += 1;
                    }
                    Ok(Some((req, resp, up, ek))) => {
                        cx.outcome("registration-completes-although-rng-fails");
                        if n.exports.contains(&ek) {
                            cx.violate("export-key/not-separated-when-rng-fails", "a registration completed on a failing random generator returns an export key that an earlier registration already returned".into());
                        }
                        n.exports.push(ek.clone());
                        n.secrets.push(ek.clone());
                        let file = self.api.sreg_finish(&Blob::n(&up)).unwrap_or_default();
                        n.wire.extend([req, resp, up, file.clone()]);
                        n.recs[u * 2 + srv] = Some(Rec { file, export: ek, pw: *pw });
                        n.regs += 1;
                    }
                }
            }
            Act::Login { u, srv, ctx } => {
                let rec = s.recs[u * 2 + srv].as_ref().unwrap();
                let c: Option<&[u8]> = if *ctx { Some(b"c") } else { None };
                match flow::login(&self.api, &mut t, &self.setups[*srv], Some(&rec.file), PWS[rec.pw], USERS[*u], c, None, None, None) {
                    Ok(l) => {
                        if self.mode == Mode::Own && l.export != rec.export {
                            cx.violate("export-key/unstable", "a successful login returns a different export key than the registration that produced the record".into());
                        }
                        n.secrets.push(l.sk_client.clone());
                        n.wire.extend([l.ke1.clone(), l.ke2.clone(), l.ke3.clone()]);
                        n.logins += 1;
                    }
                    Err(e) => {
                        honest_fail(cx, self.mode, "login-fails", format!("an honest login in a history fails at {}: {:?}", e.step, e.e));
                        return None;
                    }
                }
            }
        }
        n.pos = t.pos;
        Some(n)
    }
    fn check(&self, s: &St, cx: &mut Cx) {
        if self.mode != Mode::Own {
            cx.outcome("state-ok");
            return;
        }
        // secrets never appear verbatim in transmitted / stored bytes
        for sec in s.secrets.iter().filter(|x| x.len() >= 16) {
            for w in &s.wire {
                if w.len() >= sec.len() && w.windows(sec.len()).any(|x| x == &sec[..]) {
                    cx.violate("secret-on-the-wire", "an export key, session key or password occurs verbatim in a message or password file".into());
                }
            }
        }
        cx.outcome("state-ok");
    }
    fn describe(&self, a: &Act) -> Value {
        match a {
            Act::Register { u, pw, srv } => json!({"register": {"user": String::from_utf8_lossy(USERS[*u]), "pw": pw, "server": srv}}),
            Act::RegisterRngFails { u, pw, srv } => json!({"register_with_failing_rng": {"user": String::from_utf8_lossy(USERS[*u]), "pw": pw, "server": srv}}),
            Act::Login { u, srv, ctx } => json!({"login": {"user": String::from_utf8_lossy(USERS[*u]), "server": srv, "ctx": ctx}}),
        }
    }
}

pub fn world(api: &Api, tier: Tier, seed: u64, mode: Mode) -> Result<World, String> {
    let mut t = Tape::seeded(seed, "c16/setups");
    let a = api.setup(&mut t).map_err(|e| format!("{:?}", e))?;
    let b = api.setup(&mut t).map_err(|e| format!("{:?}", e))?;
    let slow = api.name().contains("P521") || api.name().contains("P384");
    let (max_regs, max_logins, nsrv) = match (tier.thorough(), slow) {
        (false, true) => (2, 1, 1),
        (false, false) => (2, 2, 2),
        (true, true) => (2, 2, 2),
        (true, false) => (3, 3, 2),
    };
    Ok(World { api: *api, mode, setups: vec![a, b], max_regs, max_logins, nsrv, seed })
}

/// Separation on ONE tape: in a history every registration draws another envelope nonce, so the histories' pairwise
/// comparison cannot tell whether the export key depends on the user, the password or the server at all.  Here every
/// registration of the grid user (7: short, empty, 64 bytes, two 1000-byte identifiers that differ in the last byte) x
/// password (2) x server (2) starts from the same tape position - same blind, same envelope nonce - so the export keys
/// differ only through the OPRF output; all 28 must be pairwise distinct, and a login against each record (again from
/// one common tape position) must return that record's export key.
fn same_tape_grid(api: &Api, w: &World, seed: u64, cx: &mut Cx) {
    let users: Vec<Vec<u8>> = crate::alphabet::cids_full().into_iter().take(7).collect();
    let mut seen: Vec<(Vec<u8>, Value)> = vec![];
    for (ui, u) in users.iter().enumerate() {
        for (pi, pw) in PWS.iter().enumerate() {
            for (si, setup) in w.setups.iter().enumerate() {
                let case = json!({"same_tape_grid": {"user": crate::alphabet::desc(u), "pw": pi, "server": si}});
                cx.begin_case(case.clone());
                let mut t = Tape::seeded(seed, "c16/grid");
                let r = match flow::register(api, &mut t, setup, pw, u, None, None, None) {
                    Ok(r) => r,
                    Err(e) => {
                        honest_fail(cx, w.mode, "registration-fails", format!("an honest registration of the same-tape grid fails at {}: {:?}", e.step, e.e));
                        continue;
                    }
                };
                if let Some((_, other)) = seen.iter().find(|(k, _)| *k == r.export) {
                    cx.violate_case("export-key/not-separated-on-one-tape", "two registrations on the same tape that differ in user, password or server return the same export key".into(), json!({"a": other, "b": case}));
                }
                seen.push((r.export.clone(), case));
                let mut tl = Tape::seeded(seed, "c16/grid-login");
                match flow::login(api, &mut tl, setup, Some(&r.file), pw, u, None, None, None, None) {
                    Ok(l) => {
                        if l.export != r.export {
                            cx.violate("export-key/unstable", "a successful login returns a different export key than the registration that produced the record".into());
                        }
                        cx.outcome("grid-login-export-key-stable");
                    }
                    Err(e) => honest_fail(cx, w.mode, "login-fails", format!("an honest login of the same-tape grid fails at {}: {:?}", e.step, e.e)),
                }
                let _ = ui;
            }
        }
    }
    cx.sample(json!({"suite": api.name(), "same_tape_grid": {"registrations": seen.len(), "users": users.iter().map(|u| crate::alphabet::desc(u)).collect::<Vec<_>>(), "passwords": 2, "servers": w.setups.len(), "oracle": "export keys pairwise distinct; login export key = registration export key"}}));
}

pub fn run(tier: Tier, seed: u64) -> i32 {
    let t0 = Instant::now();
    let items = all_apis();
    let models = std::sync::Mutex::new(vec![]);
    let mut tot = Totals::default();
    tot.merge(fw::run_items("C16", &items, |a| a.name().to_string(), |api, cx| match world(api, tier, seed, Mode::Own) {
        Ok(w) => {
            let st = explore::bfs(&w, cx, 400_000);
            models.lock().unwrap().push(json!({"suite": api.name(), "max_registrations": w.max_regs, "max_logins": w.max_logins, "servers": w.nsrv, "states": st.states, "edges": st.edges, "depth": st.max_depth, "capped": st.capped}));
            cx.sample(json!({"suite": api.name(), "actions": "Register(user in 2, pw in 2, server) / Login(user, server, ctx in {absent, c})", "bounds": {"registrations": w.max_regs, "logins": w.max_logins}}));
            same_tape_grid(api, &w, seed, cx);
        }
        Err(e) => cx.violate_case("honest-step/error", e, json!({})),
    }));
    let mut cross = json!(null);
    if tier.thorough() {
        let api = all_apis()[0];
        let mut cx = Cx::new("C16", api.name());
        let mine = explore::bfs(&world(&api, Tier::Quick, seed, Mode::Own).unwrap(), &mut cx, 400_000);
        let (s, d) = explore::stateright_count(world(&api, Tier::Quick, seed, Mode::Own).unwrap(), 16);
        cross = json!({"suite": api.name(), "model": "quick bounds", "mine": {"states": mine.states, "depth": mine.max_depth}, "stateright": {"states": s, "depth": d}, "agree": s == mine.states && d == mine.max_depth});
        if !(s == mine.states && d == mine.max_depth) {
            tot.machinery_errors.push(format!("stateright cross-count disagrees: {}", cross));
        }
    }
    let rep = Report {
        property: "C16",
        tier,
        seed,
        rule: "explicit-state BFS over all histories of registrations and logins (2 users x 2 passwords x up to 2 servers, contexts absent/'c') within the stated operation bounds on one tape; invariant evaluated on every transition and state; plus the complete same-tape grid user(7) x password(2) x server(2) with pairwise-distinct export keys".into(),
        bounds: json!({"suites": 20, "models": models.into_inner().unwrap()}),
        assumptions: vec![],
        exhaustive: true,
        crosscheck: cross,
    };
    fw::finish(rep, tot, t0)
}
