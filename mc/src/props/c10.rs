//! C10 - wire and storage encodings are strict and canonical.
//! LTS: root = a valid encoding; actions = truncate / extend / set one byte / alias arithmetic (depth 1), plus
//! depth 2 on (tag byte of an element field) x (any byte of that field) in the thorough tier.
//! Oracle: decode(b) = Ok(x)  =>  encode(x) == b;  and every root decodes and re-encodes to itself.
use super::common::*;
use crate::adapter::Blob;
use crate::api::Api;
use crate::fw::{self, Cx, Report, Tier};
use crate::groups::G;
use crate::refmodel::{Field, Kind, ALL_KINDS, FT};
use serde_json::json;
use std::time::Instant;

struct Root {
    name: String,
    bytes: Vec<u8>,
    honest: bool,
}

fn is_elem(f: &Field) -> bool {
    matches!(f.ty, FT::OprfElem | FT::KePk)
}
fn is_scalar(f: &Field) -> bool {
    matches!(f.ty, FT::OprfScalar | FT::KeSk)
}

fn roots(api: &Api, kind: Kind, tier: Tier, seed: u64) -> Result<Vec<Root>, String> {
    let sp = api.spec;
    let mut out = vec![];
    let nflows = if tier.thorough() { 2 } else { 1 };
    let mut base: Option<Vec<u8>> = None;
    for i in 0..nflows {
        let f = honest(api, seed, &format!("c10/{}", i), &setting(i))?;
        let b = artefacts(&f)[&kind].clone();
        if base.is_none() {
            base = Some(b.clone());
        }
        out.push(Root { name: format!("honest{}", i), bytes: b, honest: true });
    }
    // special valid values in each element / scalar field of the first honest root
    let base = base.unwrap();
    for f in sp.layout(kind) {
        let g = match sp.group_of(f.ty) {
            Some(g) => g,
            None => continue,
        };
        if is_elem(&f) {
            for (i, e) in g.small_valid_elems(2).into_iter().enumerate() {
                let mut b = base.clone();
                b[f.range()].copy_from_slice(&e);
                out.push(Root { name: format!("special/{}/small{}", f.name, i), bytes: b, honest: false });
            }
        } else if is_scalar(&f) {
            for (n, s) in g.special_scalars() {
                let mut b = base.clone();
                b[f.range()].copy_from_slice(&s);
                // a server setup is seed || private key || fake private key with no redundancy: every valid private key
                // gives a setup the library itself can produce (ServerSetup::new_with_key_pair), so it must be accepted
                out.push(Root { name: format!("special/{}/{}", f.name, n), bytes: b, honest: kind == Kind::Setup });
            }
        }
    }
    Ok(out)
}

fn field_at(layout: &[Field], off: usize) -> Option<&Field> {
    layout.iter().find(|f| f.range().contains(&off))
}

fn explore(api: &Api, kind: Kind, tier: Tier, seed: u64, cx: &mut Cx) {
    let sp = api.spec;
    let layout = sp.layout(kind);
    let roots = match roots(api, kind, tier, seed) {
        Ok(r) => r,
        Err(e) => {
            cx.violate_case("machinery/honest-flow", e, json!({"kind": kind.name()}));
            return;
        }
    };
    cx.context_done();
    let gname = |f: &Field| sp.group_of(f.ty).map(|g: G| g.name()).unwrap_or("-");
    for root in &roots {
        let b = &root.bytes;
        let len = b.len();
        cx.begin_case(json!({"decoder": kind.name(), "root": root.name}));
        // the root itself
        cx.state(&(kind, b));
        match api.decode(kind, b) {
            Ok(r) if &r == b => cx.outcome("root-roundtrip-ok"),
            Ok(r) => {
                cx.violate_case(&format!("{}/roundtrip", kind.name()), format!("valid {} ({}) re-encodes differently: {} -> {}", kind.name(), root.name, hex::encode(b), hex::encode(&r)), json!({"decoder": kind.name(), "root": root.name, "bytes": hex::encode(b)}));
                continue;
            }
            Err(e) => {
                if root.honest {
                    cx.outcome("VALID-ROOT-REJECTED");
                    cx.violate_case(&format!("{}/honest-rejected", kind.name()), format!("valid {} ({}) is rejected by its decoder: {:?}", kind.name(), root.name, e), json!({"decoder": kind.name(), "root": root.name, "bytes": hex::encode(b)}));
                } else {
                    cx.outcome("special-root-rejected");
                }
                continue;
            }
        }
        let mut judge = |cx: &mut Cx, m: &[u8], class: &dyn Fn() -> String, how: &dyn Fn() -> serde_json::Value| {
            if !cx.state(&(kind, m)) {
                cx.outcome("duplicate-mutant");
                return;
            }
            cx.edges += 1;
            cx.path();
            cx.begin_case(serde_json::Value::Null);
            match api.decode(kind, m) {
                Err(_) => cx.outcome("rejected"),
                Ok(r) if r == m => {
                    cx.outcome("accepted-canonical");
                    // a different byte string that is a valid encoding is a different message: the library's own `==`
                    // on the decoded objects must say so too ("never treated as the same message")
                    // (not asked for alias candidates: those are constructed to DENOTE the same group element - e.g. a
                    // Curve25519 u-coordinate with bit 255 set or not reduced mod p, which RFC 7748 accepts and the
                    // library keeps verbatim - and point equality rightly says so; whether such an encoding may be
                    // accepted at all is the re-encoding criterion above)
                    // (thorough tier: the 255-value byte menus make millions of accepted encodings; the equality question is
                    // asked for those that are also in the quick menu - one byte changed by ^01 or ^80 - and for every
                    // mutant of another class)
                    let in_quick_menu = !tier.thorough() || m.len() != b.len() || {
                        let d: Vec<u8> = m.iter().zip(b.iter()).map(|(x, y)| x ^ y).filter(|x| *x != 0).collect();
                        d.len() != 1 || d[0] == 0x01 || d[0] == 0x80
                    };
                    if m != &b[..] && !class().starts_with("alias/") && in_quick_menu {
                        match api.same(kind, &Blob::n(b), &Blob::n(m)) {
                            Ok(true) => {
                                cx.outcome("TYPED-EQUALITY-IGNORES-BYTES");
                                let mut h = how();
                                h["decoder"] = json!(kind.name());
                                h["root"] = json!(root.name);
                                h["input"] = json!(hex::encode(m));
                                cx.violate_case(&format!("{}/typed-equality/{}", kind.name(), class()), format!("two different valid encodings of {} decode to objects the library's == treats as equal ({})", kind.name(), class()), h);
                            }
                            Ok(false) => {}
                            Err(e) => cx.violate_case("machinery/typed-equality", format!("{:?}", e), json!({"decoder": kind.name()})),
                        }
                    }
                }
                Ok(r) => {
                    cx.outcome("ACCEPTED-NONCANONICAL");
                    let mut h = how();
                    h["decoder"] = json!(kind.name());
                    h["root"] = json!(root.name);
                    h["input"] = json!(hex::encode(m));
                    h["reencoded"] = json!(hex::encode(&r));
                    cx.violate_case(&format!("{}/{}", kind.name(), class()), format!("{} decodes a {}-byte string that re-encodes to a different {}-byte string ({})", kind.name(), m.len(), r.len(), class()), h);
                }
            }
        };
        // truncations
        for l in 0..len {
            judge(cx, &b[..l], &|| "truncate".into(), &|| json!({"action": "truncate", "to": l}));
        }
        // extensions
        for extra in 1..=64usize {
            for (pi, pat) in ["zeros", "aa", "head"].iter().enumerate() {
                let mut m = b.clone();
                for i in 0..extra {
                    m.push(match pi {
                        0 => 0,
                        1 => 0xaa,
                        _ => b[i % len],
                    });
                }
                judge(cx, &m, &|| "extend".into(), &|| json!({"action": "extend", "by": extra, "pattern": pat}));
            }
        }
        // insertions and deletions of a single byte at every offset (a decoder that tolerates a legacy / optional byte
        // somewhere in the middle accepts a second encoding that plain extension at the end never produces)
        for off in 0..=len {
            let neighbour = if off < len { b[off] } else { b[len - 1] };
            for v in [0x00u8, 0x01, 0x02, 0x03, 0xff, neighbour] {
                let mut m = b.clone();
                m.insert(off, v);
                judge(cx, &m, &|| "insert".into(), &|| json!({"action": "insert byte", "offset": off, "value": v}));
            }
            if off < len {
                let mut m = b.clone();
                m.remove(off);
                judge(cx, &m, &|| "delete".into(), &|| json!({"action": "delete byte", "offset": off}));
            }
        }
        // depth 2: the first byte of any field set to a small tag-like value, combined with a one- or two-byte extension
        // or a one-byte truncation (an optional leading mode / version / tag byte that shifts the rest)
        for f in &layout {
            for v in [0x00u8, 0x01, 0x02, 0x03, 0x04, 0xff] {
                let mut base = b.clone();
                base[f.start] = v;
                for (nm, m) in [("extend1", [&base[..], &[0u8][..]].concat()), ("extend1b", [&base[..], &[v][..]].concat()), ("extend2", [&base[..], &[0u8, 0u8][..]].concat()), ("truncate1", base[..len - 1].to_vec())] {
                    judge(cx, &m, &|| format!("depth2/first-byte+{}/{}", nm, f.name), &|| json!({"action": "set first byte of field + length change", "field": f.name, "value": v, "length_change": nm}));
                }
            }
        }
        // alias arithmetic
        for f in &layout {
            let g = match sp.group_of(f.ty) {
                Some(g) => g,
                None => continue,
            };
            let cur = &b[f.range()];
            let al = if is_elem(f) { g.elem_aliases(cur) } else { g.scalar_aliases(cur) };
            for (n, a) in al {
                let mut m = b.clone();
                m[f.range()].copy_from_slice(&a);
                judge(cx, &m, &|| format!("alias/{}/{}/{}", f.name, n, g.name()), &|| json!({"action": "alias", "field": f.name, "alias": n}));
            }
        }
        // single-byte substitutions
        for off in 0..len {
            let f = field_at(&layout, off).unwrap();
            let lead = is_elem(f) && (off == f.start || (!sp.group_of(f.ty).unwrap().big_endian() && off == f.start + f.len - 1));
            let vals: Vec<u8> = if tier.thorough() || lead {
                (0..=255u8).filter(|v| *v != b[off]).collect()
            } else if off % 2 == 0 || is_scalar(f) && (off == f.start || off == f.start + f.len - 1) {
                vec![b[off] ^ 0x01, b[off] ^ 0x80]
            } else {
                vec![]
            };
            for v in vals {
                let mut m = b.clone();
                m[off] = v;
                let cls = || {
                    if is_elem(f) && off == f.start && sp.group_of(f.ty).unwrap().big_endian() {
                        format!("setbyte/{}/tag{:02x}/{}", f.name, v, gname(f))
                    } else if sp.group_of(f.ty).is_some() {
                        format!("setbyte/{}/{}", f.name, gname(f))
                    } else {
                        format!("setbyte/{}", f.name)
                    }
                };
                judge(cx, &m, &cls, &|| json!({"action": "setbyte", "offset": off, "value": v, "field": f.name}));
            }
        }
        // depth 2 (thorough): tag byte x any byte of the same element field
        if tier.thorough() && root.honest {
            for f in layout.iter().filter(|f| is_elem(f)) {
                let g = sp.group_of(f.ty).unwrap();
                if !g.big_endian() {
                    continue;
                }
                for tag in [0x00u8, 0x02, 0x03, 0x04, 0x05, 0x06, 0x07] {
                    if tag == b[f.start] {
                        continue;
                    }
                    for off in f.start + 1..f.start + f.len {
                        for v in (0..=255u8).filter(|v| *v != b[off]) {
                            let mut m = b.clone();
                            m[f.start] = tag;
                            m[off] = v;
                            judge(cx, &m, &|| format!("depth2/{}/tag{:02x}/{}", f.name, tag, g.name()), &|| json!({"action": "settag+setbyte", "tag": tag, "offset": off, "value": v, "field": f.name}));
                        }
                    }
                }
                cx.depth(2);
            }
        }
        cx.depth(1);
    }
    cx.sample(json!({"suite": api.name(), "decoder": kind.name(), "roots": roots.iter().map(|r| r.name.clone()).collect::<Vec<_>>(), "example_root": hex::encode(&roots[0].bytes),
        "actions": "truncate to every length; extend by 1..64 (3 patterns); alias arithmetic per field; set byte (see bounds)"}));
}

/// all arrays inside a JSON value, as paths
fn array_paths(v: &serde_json::Value, cur: &mut Vec<String>, out: &mut Vec<(Vec<String>, usize)>) {
    match v {
        serde_json::Value::Array(a) => {
            out.push((cur.clone(), a.len()));
            for (i, x) in a.iter().enumerate() {
                cur.push(i.to_string());
                array_paths(x, cur, out);
                cur.pop();
            }
        }
        serde_json::Value::Object(m) => {
            for (k, x) in m {
                cur.push(k.clone());
                array_paths(x, cur, out);
                cur.pop();
            }
        }
        _ => {}
    }
}
fn at_path<'a>(v: &'a mut serde_json::Value, path: &[String]) -> &'a mut serde_json::Value {
    let mut cur = v;
    for p in path {
        cur = match cur {
            serde_json::Value::Array(a) => &mut a[p.parse::<usize>().unwrap()],
            serde_json::Value::Object(m) => m.get_mut(p).unwrap(),
            _ => unreachable!(),
        };
    }
    cur
}

/// the STORED forms that go through serde: a field whose element sequence is shortened or lengthened must not be
/// accepted as some other object.  Format-level freedom (whitespace, key order) is not questioned: the mutations act
/// on the parsed JSON value of what the implementation itself wrote, and the oracle compares parsed values.
fn serde_structural(api: &Api, kind: Kind, seed: u64, cx: &mut Cx) {
    use crate::adapter::Codec;
    let f = match honest(api, seed, "c10/serde", &setting(1)) {
        Ok(f) => f,
        Err(e) => {
            cx.violate_case("machinery/honest-flow", e, json!({"kind": kind.name()}));
            return;
        }
    };
    let native = artefacts(&f)[&kind].clone();
    let js = match api.recode(kind, &Blob::n(&native), Codec::Json) {
        Ok(b) => b.bytes,
        Err(e) => {
            cx.violate_case("machinery/serde-encode", format!("{:?}", e), json!({"kind": kind.name()}));
            return;
        }
    };
    let root: serde_json::Value = match serde_json::from_slice(&js) {
        Ok(v) => v,
        Err(_) => return,
    };
    cx.context_done();
    // every member of every object removed (a field that silently takes a default when absent)
    {
        fn object_members(v: &serde_json::Value, cur: &mut Vec<String>, out: &mut Vec<(Vec<String>, String)>) {
            match v {
                serde_json::Value::Array(a) => {
                    for (i, x) in a.iter().enumerate() {
                        cur.push(i.to_string());
                        object_members(x, cur, out);
                        cur.pop();
                    }
                }
                serde_json::Value::Object(m) => {
                    for (k, x) in m {
                        out.push((cur.clone(), k.clone()));
                        cur.push(k.clone());
                        object_members(x, cur, out);
                        cur.pop();
                    }
                }
                _ => {}
            }
        }
        let mut members = vec![];
        object_members(&root, &mut vec![], &mut members);
        for (path, key) in members {
            let mut v = root.clone();
            if let serde_json::Value::Object(m) = at_path(&mut v, &path) {
                m.remove(&key);
            }
            let text = serde_json::to_vec(&v).unwrap();
            cx.begin_case(json!({"decoder": kind.name(), "codec": "Json", "object": path.join("/"), "mutation": format!("remove member {}", key)}));
            if !cx.state(&(kind, "json", &text)) {
                continue;
            }
            cx.edges += 1;
            cx.path();
            match api.recode(kind, &Blob::new(Codec::Json, text), Codec::Json) {
                Err(_) => cx.outcome("serde-rejected"),
                Ok(back) => {
                    let same = serde_json::from_slice::<serde_json::Value>(&back.bytes).map(|b| b == v).unwrap_or(false);
                    if same {
                        cx.outcome("serde-accepted-canonical");
                    } else {
                        cx.outcome("SERDE-ACCEPTED-NONCANONICAL");
                        cx.violate(&format!("{}/serde-json/missing-member", kind.name()), format!("the stored JSON form of {} without its member {}/{} is accepted and re-encodes differently", kind.name(), path.join("/"), key));
                    }
                }
            }
        }
    }
    let mut paths = vec![];
    array_paths(&root, &mut vec![], &mut paths);
    for (path, len) in paths {
        let mut muts: Vec<(String, serde_json::Value)> = vec![];
        for i in 0..len {
            let mut v = root.clone();
            if let serde_json::Value::Array(a) = at_path(&mut v, &path) {
                a.remove(i);
            }
            muts.push((format!("remove element {}", i), v));
        }
        for i in [0usize, len.saturating_sub(1)] {
            if len > 0 {
                let mut v = root.clone();
                if let serde_json::Value::Array(a) = at_path(&mut v, &path) {
                    let x = a[i].clone();
                    a.insert(i, x);
                }
                muts.push((format!("duplicate element {}", i), v));
            }
        }
        let mut v = root.clone();
        if let serde_json::Value::Array(a) = at_path(&mut v, &path) {
            a.push(json!(0));
        }
        muts.push(("append 0".into(), v));
        for (how, v) in muts {
            let text = serde_json::to_vec(&v).unwrap();
            cx.begin_case(json!({"decoder": kind.name(), "codec": "Json", "array": path.join("/"), "mutation": how}));
            if !cx.state(&(kind, "json", &text)) {
                continue;
            }
            cx.edges += 1;
            cx.path();
            match api.recode(kind, &Blob::new(Codec::Json, text), Codec::Json) {
                Err(_) => cx.outcome("serde-rejected"),
                Ok(back) => {
                    let same = serde_json::from_slice::<serde_json::Value>(&back.bytes).map(|b| b == v).unwrap_or(false);
                    if same {
                        cx.outcome("serde-accepted-canonical");
                    } else {
                        cx.outcome("SERDE-ACCEPTED-NONCANONICAL");
                        cx.violate(&format!("{}/serde-json/{}", kind.name(), if how.starts_with("remove") { "shortened-field" } else { "lengthened-field" }), format!("the stored JSON form of {} with one array ({}) changed in length ({}) is accepted and denotes another object", kind.name(), path.join("/"), how));
                    }
                }
            }
        }
    }
}

pub fn run(tier: Tier, seed: u64) -> i32 {
    let t0 = Instant::now();
    let mut items = vec![];
    for api in all_apis() {
        for k in ALL_KINDS {
            items.push((api, k));
        }
    }
    let mut tot = fw::run_items("C10", &items, |(a, _)| a.name().to_string(), |(api, kind), cx| explore(api, *kind, tier, seed, cx));
    tot.merge(fw::run_items("C10", &items, |(a, _)| a.name().to_string(), |(api, kind), cx| serde_structural(api, *kind, seed, cx)));
    let rep = Report {
        property: "C10",
        tier,
        seed,
        rule: "explicit-state enumeration of the decoder mutation LTS: roots = honest encodings (and encodings with special valid field values) of all 11 decoders x 20 suites; every action of the alphabet is applied to every root; a state is a distinct (decoder, byte string); oracle: decode ok => re-encode identical".into(),
        bounds: json!({"suites": 20, "decoders": 11, "depth": if tier.thorough() {2} else {1},
            "setbyte": if tier.thorough() {"every offset x all 255 other values"} else {"all 256 values of each element field's leading byte; every other offset x {^0x01, ^0x80}"},
            "truncate": "every length 0..len-1", "extend": "1..64 bytes x {zeros, 0xAA, copy of head}", "insert_delete": "one byte inserted at every offset (6 values) / deleted at every offset", "first_byte_x_length": "first byte of every field in {00,01,02,03,04,ff} x {extend by 1, 2, truncate by 1}", "serde_json_structural": "every array of the stored JSON form: each element removed, first/last duplicated, one appended; every object member removed", "typed_equality": "every accepted different encoding must be != under the library's own ==", "alias": "x+p, other SEC1 tags, s+p, bit 255, p-s, s+n, unclamped",
            "depth2": if tier.thorough() {"7 tags x every byte of the field x 255 values (honest roots, P-curve element fields)"} else {"-"},
            "roots_per_decoder": if tier.thorough() {"2 honest + special values per element/scalar field"} else {"1 honest + special values per element/scalar field"}}),
        assumptions: vec!["ground truth for special valid points comes from the p256/p384/p521/curve25519-dalek crates".into(), "the property's 'one encoding of one fixed length' is about the native encodings; of the serde forms only this is demanded: a stored JSON form with one element sequence shortened or lengthened is not accepted as a different object".into()],
        exhaustive: true,
        crosscheck: json!(null),
    };
    fw::finish(rep, tot, t0)
}
