//! C18 - externally held server keys are a transparent abstraction.
//! Enumerated: a harness-defined SecretKey (wraps a private key, logs every interface call, fails at its n-th
//! fallible call) for all 20 suites x 3 settings x operations {KeyPair::from_private_key, ServerSetup::new_with_key,
//! setup deserialize+serialize, registration start, login start with / without a record} x n in {none, 1..calls+1}.
//! Oracle: without failure every output equals the direct-key server's on the same tape and protocol operations
//! touch only public_key / diffie_hellman (clone tolerated; serialize/deserialize only in setup (de)serialization);
//! a failure at call n <= calls makes the operation return Err(Custom(that error)) - no panic, no output; a failure
//! armed beyond the last call changes nothing.
use super::common::*;
use crate::adapter::{Blob, E};
use crate::api::Api;
use crate::flow::{self, o};
use crate::fw::{self, Cx, Report, Tier};
use crate::refmodel::Kind;
use crate::tape::Tape;
use serde_json::json;
use std::time::Instant;

type Out = Result<Vec<Vec<u8>>, E>;

fn explore(api: &Api, setting_ix: usize, style: u8, seed: u64, cx: &mut Cx) {
    let sp = api.spec;
    // what the external key serializes to: a decoy private key (style 0), an opaque handle that is no scalar (1),
    // nothing at all (2: type Len = U0) or a tagged handle longer than a scalar (3)
    api.r_style(style);
    let style_name = ["decoy private key", "opaque bytes, not a scalar", "nothing (Len = U0)", "tagged handle of SkLen + 8 bytes"][style as usize];
    let p = setting(setting_ix);
    let fx = (|| -> Result<_, String> {
        let mut t = Tape::seeded(seed, &format!("c18/fx/{}", setting_ix));
        let setup = api.setup(&mut t).map_err(|e| format!("{:?}", e))?;
        let reg = flow::register(api, &mut t, &setup, &p.pw, &p.cid, o(&p.idu), o(&p.ids), None).map_err(|e| format!("{} {:?}", e.step, e.e))?;
        let (ke1, _) = api.login_start(&mut t, &p.pw).map_err(|e| format!("{:?}", e))?;
        Ok((setup, reg, ke1))
    })();
    let (setup, reg, ke1) = match fx {
        Ok(x) => x,
        Err(e) => {
            cx.violate_case("honest-step/error", e, json!({}));
            return;
        }
    };
    let skf = sp.field(Kind::Setup, "server_sk");
    let sk = skf.of(&setup).to_vec();
    // the external key is handle-style: what it serializes to is an opaque handle (a decoy key), not the key
    let handle = match api.r_handle(&sk) {
        Ok(h) => h,
        Err(e) => {
            cx.violate_case("machinery/key-store", format!("{:?}", e), json!({}));
            return;
        }
    };
    // the remote server's persisted setup = the direct one with the handle (of whatever length the external key
    // serializes to: SkLen, 0, or SkLen + 8 bytes) in place of the private key
    let splice = |b: &[u8]| -> Vec<u8> { [&b[..skf.start], &handle[..], &b[skf.start + skf.len..]].concat() };
    let rsetup = splice(&setup);
    let with_handle = |v: Vec<Vec<u8>>| -> Vec<Vec<u8>> { v.into_iter().map(|b| if b.len() == setup.len() { splice(&b) } else { b }).collect() };
    cx.context_done();
    let label = format!("seed{}/c18/op/{}", seed, setting_ix);
    let ops = ["keypair", "new_with_key", "setup_recode", "sreg_start", "slogin_start(record)", "slogin_start(no record)"];
    for op in ops {
        // direct-key reference on the same tape
        let direct: Out = match op {
            "keypair" => api.ke_keypair_pk(&sk).map(|x| vec![x]),
            "new_with_key" => api.setup_with_key(&mut Tape::new(&label), &sk).map(|x| with_handle(vec![x])),
            "setup_recode" => api.decode(Kind::Setup, &setup).map(|x| with_handle(vec![x])),
            "sreg_start" => api.sreg_start(&Blob::n(&setup), &Blob::n(&reg.req), &p.cid).map(|x| vec![x]),
            "slogin_start(record)" => api.slogin_start(&mut Tape::new(&label), &Blob::n(&setup), Some(&Blob::n(&reg.file)), &Blob::n(&ke1), &p.cid, o(&p.ctx), o(&p.idu), o(&p.ids)).map(|(a, b)| vec![a, b]),
            _ => api.slogin_start(&mut Tape::new(&label), &Blob::n(&setup), None, &Blob::n(&ke1), &p.cid, o(&p.ctx), o(&p.idu), o(&p.ids)).map(|(a, b)| vec![a, b]),
        };
        let remote = |fail: Option<usize>| -> (Out, Vec<String>) {
            match op {
                "keypair" => {
                    let (r, l) = api.r_keypair(&sk, fail);
                    (r.map(|x| vec![x]), l)
                }
                "new_with_key" => {
                    let (r, l) = api.r_setup_with_key(&mut Tape::new(&label), &sk, fail);
                    (r.map(|x| vec![x]), l)
                }
                "setup_recode" => {
                    let (r, l) = api.r_setup_recode(&rsetup, fail);
                    (r.map(|x| vec![x]), l)
                }
                "sreg_start" => {
                    let (r, l) = api.r_sreg_start(&rsetup, &Blob::n(&reg.req), &p.cid, fail);
                    (r.map(|x| vec![x]), l)
                }
                "slogin_start(record)" => {
                    let (r, l) = api.r_slogin_start(&mut Tape::new(&label), &rsetup, Some(&Blob::n(&reg.file)), &Blob::n(&ke1), &p.cid, o(&p.ctx), o(&p.idu), o(&p.ids), fail);
                    (r.map(|(a, b)| vec![a, b]), l)
                }
                _ => {
                    let (r, l) = api.r_slogin_start(&mut Tape::new(&label), &rsetup, None, &Blob::n(&ke1), &p.cid, o(&p.ctx), o(&p.idu), o(&p.ids), fail);
                    (r.map(|(a, b)| vec![a, b]), l)
                }
            }
        };
        cx.begin_case(json!({"op": op, "setting": setting_ix, "handle_style": style_name, "fail_at": null}));
        cx.state(&(op, style, 0usize));
        cx.edges += 2;
        cx.path();
        let (r0, log0) = remote(None);
        if r0 != direct {
            cx.outcome("REMOTE-DIFFERS");
            cx.violate(&format!("{}/remote-differs-from-direct", op), format!("operation {} with an external key gives a different result than with the same key held directly ({:?} vs {:?})", op, r0.as_ref().map(|v| v.len()), direct.as_ref().map(|v| v.len())));
        } else {
            cx.outcome("remote-equals-direct");
        }
        let fallible: Vec<&String> = log0.iter().filter(|c| *c != "clone" && *c != "serialize").collect();
        let allowed: &[&str] = if op == "setup_recode" { &["deserialize", "serialize", "public_key", "clone"] } else { &["public_key", "diffie_hellman", "clone"] };
        for c in &log0 {
            if !allowed.contains(&c.as_str()) {
                cx.violate(&format!("{}/uses-{}", op, c), format!("operation {} calls {} of the external key; only {:?} are expected", op, c, allowed));
            }
        }
        cx.add("interface_calls_observed", log0.len() as u64);
        let calls = fallible.len();
        for n in 1..=calls + 1 {
            cx.begin_case(json!({"op": op, "setting": setting_ix, "handle_style": style_name, "fail_at": n, "fallible_calls_in_clean_run": fallible}));
            cx.state(&(op, style, n));
            cx.edges += 1;
            cx.path();
            let (r, log) = remote(Some(n));
            if n <= calls {
                match r {
                    Err(E::Custom(code)) if code == 1000 + n as u32 => cx.outcome("failure-propagated"),
                    Err(E::Panic(m)) => cx.violate(&format!("{}/panics-on-key-failure", op), m),
                    Err(e) => cx.violate(&format!("{}/wrong-error-on-key-failure", op), format!("the external key failed at call {} ({}), the operation returned {:?} instead of that error", n, fallible[n - 1], e)),
                    Ok(_) => {
                        cx.outcome("FAILURE-SWALLOWED");
                        cx.violate(&format!("{}/key-failure-swallowed/{}", op, fallible[n - 1]), format!("the external key failed at call {} ({}) but operation {} returned a result", n, fallible[n - 1], op));
                    }
                }
                let _ = log;
            } else if r != direct {
                cx.violate(&format!("{}/unfired-fault-changes-result", op), "a failure armed beyond the last interface call changes the result".into());
            } else {
                cx.outcome("unfired-fault-no-effect");
            }
        }
    }
    cx.sample(json!({"suite": api.name(), "setting": p.describe(), "ops": ops}));
}

pub fn run(tier: Tier, seed: u64) -> i32 {
    let t0 = Instant::now();
    let mut items = vec![];
    for api in all_apis() {
        for s in 0..3 {
            for style in 0..4u8 {
                items.push((api, s, style));
            }
        }
    }
    let tot = fw::run_items("C18", &items, |(a, _, _)| a.name().to_string(), |(api, s, style), cx| {
        explore(api, *s, *style, seed, cx);
        api.r_style(0);
    });
    let rep = Report {
        property: "C18",
        tier,
        seed,
        rule: "fault enumeration as an LTS: for each of 6 operations x 3 settings x 20 suites, the clean run and the runs with the external key failing at its n-th fallible interface call for every n in 1..calls+1; differential oracle against the direct-key server on the same tape".into(),
        bounds: json!({"suites": 20, "settings": 3, "handle_styles": ["a decoy private key", "opaque bytes that are no scalar encoding", "zero bytes (type Len = U0, as in the crate's documentation)", "SkLen + 8 bytes"], "operations": 6, "fault_positions": "every n up to (calls made + 1)", "quick_equals_thorough": true}),
        assumptions: vec!["the external key is a harness-defined implementation of the public SecretKey trait wrapping the same private key".into()],
        exhaustive: true,
        crosscheck: json!(null),
    };
    fw::finish(rep, tot, t0)
}
