//! C08 - unregistered users are indistinguishable from registered ones.
//! LTS: histories over {FakeAttempt(cid in 3 incl. empty, request in 2), RealLogin(A)} on one server tape, depth 2-3 (quick) /
//! 3-4 (thorough), x 2 identity/context settings.  Invariant in every state, for the newest fake attempt:
//! (1) same length as a real response, decodes; (2) its evaluation element equals the one produced for the same
//! (seed, cid, request) with a record, at registration, and by the reference model; (3) against every earlier
//! attempt with the same (cid, request): masking nonce, masked response, server nonce, server key share and MAC all
//! differ, and the fake masking key - identified by search among this call's tape draws and a menu of guessable
//! constants - is a fresh draw; (4) the client fails with the same error as for a wrong password
//! (InvalidLoginError); (5) no candidate finalization completes the fake server state.
use super::common::*;
use crate::adapter::{Blob, E};
use crate::api::Api;
use crate::explore::{self, Lts};
use crate::flow::{self, o, Params};
use crate::fw::{self, h128, Cx, Report, Tier, Totals};
use crate::refmodel::{hkdf_expand, Kind, NN};
use crate::tape::Tape;
use serde_json::{json, Value};
use std::time::Instant;

const CIDS: [&[u8]; 3] = [b"nobody", b"alice", b""];

#[derive(Clone, Debug, PartialEq)]
enum Act {
    Fake { cid: usize, req: usize },
    Real,
}
#[derive(Clone)]
struct Attempt {
    cid: usize,
    req: usize,
    ke2: Vec<u8>,
    st: Vec<u8>,
    draws: Vec<Vec<u8>>,
}
#[derive(Clone)]
struct St {
    pos: usize,
    depth: usize,
    attempts: Vec<Attempt>,
    reals: usize,
}
struct World {
    api: Api,
    p: Params,
    setup: Vec<u8>,
    spk: Vec<u8>,
    seed_bytes: Vec<u8>,
    file: Vec<u8>,
    /// two client requests: (ke1, client state, password)
    reqs: Vec<(Vec<u8>, Vec<u8>)>,
    real_ke2_len: usize,
    wrong_pw_err: Option<E>,
    fin_menu: Vec<Vec<u8>>,
    max_depth: usize,
    seed: u64,
}

impl World {
    fn tape(&self, pos: usize) -> Tape {
        let mut t = Tape::seeded(self.seed, "c08/server");
        t.pos = pos;
        t
    }
}

impl Lts for World {
    type S = St;
    type A = Act;
    fn init(&self, _cx: &mut Cx) -> Vec<St> {
        vec![St { pos: 0, depth: 0, attempts: vec![], reals: 0 }]
    }
    fn key(&self, s: &St) -> u128 {
        let a: Vec<(usize, usize, &Vec<u8>)> = s.attempts.iter().map(|a| (a.cid, a.req, &a.ke2)).collect();
        h128(&(s.pos, s.depth, a, s.reals))
    }
    fn actions(&self, s: &St) -> Vec<Act> {
        if s.depth >= self.max_depth {
            return vec![];
        }
        let mut v = vec![];
        for cid in 0..CIDS.len() {
            for req in 0..2 {
                v.push(Act::Fake { cid, req });
            }
        }
        v.push(Act::Real);
        v
    }
    fn step(&self, s: &St, a: &Act, cx: &mut Cx) -> Option<St> {
        let mut n = s.clone();
        let mut t = self.tape(s.pos);
        let p = &self.p;
        match a {
            Act::Fake { cid, req } => {
                let r = self.api.slogin_start(&mut t, &Blob::n(&self.setup), None, &Blob::n(&self.reqs[*req].0), CIDS[*cid], o(&p.ctx), o(&p.idu), o(&p.ids));
                match r {
                    Ok((ke2, st)) => n.attempts.push(Attempt { cid: *cid, req: *req, ke2, st, draws: t.take_draws() }),
                    Err(e) => {
                        cx.violate("fake-attempt/error", format!("login start without a record fails: {:?}", e));
                        return None;
                    }
                }
            }
            Act::Real => {
                // a real login of the registered user, interleaved on the same server tape
                let r = self.api.slogin_start(&mut t, &Blob::n(&self.setup), Some(&Blob::n(&self.file)), &Blob::n(&self.reqs[0].0), &p.cid, o(&p.ctx), o(&p.idu), o(&p.ids));
                match r {
                    Ok((ke2, st)) => match self.api.login_finish(&Blob::n(&self.reqs[0].1), &p.pw, &Blob::n(&ke2), o(&p.ctx), o(&p.idu), o(&p.ids), None) {
                        Ok((fin, sk, _, _)) => {
                            if self.api.slogin_finish(&Blob::n(&st), &Blob::n(&fin)).ok() != Some(sk) {
                                cx.violate("honest-step/real-login", "a real login interleaved with fake attempts does not complete".into());
                            }
                            n.reals += 1;
                        }
                        Err(e) => {
                            cx.violate("honest-step/real-login", format!("a real login interleaved with fake attempts fails: {:?}", e));
                            return None;
                        }
                    },
                    Err(e) => {
                        cx.violate("honest-step/real-login", format!("{:?}", e));
                        return None;
                    }
                }
            }
        }
        n.pos = t.pos;
        n.depth += 1;
        Some(n)
    }
    fn check(&self, s: &St, cx: &mut Cx) {
        let sp = self.api.spec;
        let cur = match s.attempts.last() {
            Some(a) if s.depth > 0 => a,
            _ => return,
        };
        // only judge the newest attempt (earlier ones were judged in their own states); a state reached by Real has
        // nothing new to judge
        if s.attempts.len() + s.reals != s.depth {
            return;
        }
        let lay = sp.layout(Kind::CredResp);
        let p = &self.p;
        // (1) structure
        if cur.ke2.len() != self.real_ke2_len {
            cx.violate("structure/length", format!("fake response has {} bytes, a real one {}", cur.ke2.len(), self.real_ke2_len));
            return;
        }
        match self.api.decode(Kind::CredResp, &cur.ke2) {
            Ok(b) if b == cur.ke2 => {}
            other => cx.violate("structure/decode", format!("fake response does not decode like a real one: {:?}", other.err())),
        }
        // (2) evaluation element
        let req_elem = &self.reqs[cur.req].0[..sp.noe()];
        let ev = lay[0].of(&cur.ke2);
        let model = sp.evaluate(&self.seed_bytes, CIDS[cur.cid], req_elem);
        if ev != &model[..] {
            cx.violate("evaluation/differs-from-model", "the fake response's OPRF evaluation is not request * DeriveKeyPair(Expand(seed, cid || OprfKey))".into());
        }
        // (3) freshness against earlier attempts with the same (cid, request)
        for prev in s.attempts[..s.attempts.len() - 1].iter().filter(|a| a.cid == cur.cid && a.req == cur.req) {
            for f in lay.iter().skip(1) {
                if f.of(&prev.ke2) == f.of(&cur.ke2) {
                    cx.violate(&format!("repeats/{}", f.name), format!("field {} of the fake response repeats across attempts for the same identifier and request", f.name));
                }
            }
            if lay[0].of(&prev.ke2) != ev {
                cx.violate("evaluation/not-deterministic", "the evaluation for the same (seed, cid, request) changes between attempts".into());
            }
        }
        // the pending fake server state must be as fresh as a real one: no third of it (MAC key, transcript hash,
        // session key) repeats across attempts or is constant
        let nh3 = sp.nh();
        for prev in &s.attempts[..s.attempts.len() - 1] {
            for (i, nm) in ["client MAC key", "transcript hash", "session key"].iter().enumerate() {
                if cur.st.len() == 3 * nh3 && prev.st.len() == 3 * nh3 && cur.st[i * nh3..(i + 1) * nh3] == prev.st[i * nh3..(i + 1) * nh3] {
                    cx.violate(&format!("fake-state/repeats/{}", nm), format!("the {} of the fake server state repeats across attempts", nm));
                }
            }
        }
        if cur.st.iter().all(|b| *b == cur.st[0]) {
            cx.violate("fake-state/constant", "the fake server state is a constant byte string".into());
        }
        // identify the masking key
        let masked = sp.field(Kind::CredResp, "masked_response").of(&cur.ke2).to_vec();
        let mn = sp.field(Kind::CredResp, "masking_nonce").of(&cur.ke2).to_vec();
        let nh = sp.nh();
        let fits = |k: &[u8]| {
            let pad = hkdf_expand(sp.h(), k, &[&mn[..], b"CredentialResponsePad"].concat(), masked.len());
            let clear: Vec<u8> = pad.iter().zip(&masked).map(|(a, b)| a ^ b).collect();
            clear[..sp.npk()] == self.spk[..] && clear[sp.npk()..].iter().all(|b| *b == 0)
        };
        let mut consts: Vec<(&str, Vec<u8>)> = vec![("zeros", vec![0u8; nh]), ("ones", vec![0xffu8; nh]), ("oprf seed", self.seed_bytes.clone()), ("H(cid)", sp.h().hash(&[CIDS[cur.cid]])), ("Expand(seed, cid||MaskingKey)", hkdf_expand(sp.h(), &self.seed_bytes, &[CIDS[cur.cid], b"MaskingKey"].concat(), nh))];
        consts.push(("real record's masking key", sp.field(Kind::File, "masking_key").of(&self.file).to_vec()));
        if let Some((n, _)) = consts.iter().find(|(_, k)| k.len() == nh && fits(k)) {
            cx.violate(&format!("masking-key/guessable/{}", n), format!("the fake record's masking key is the guessable constant '{}'", n));
        } else if cur.draws.iter().any(|d| d.len() == nh && fits(d)) {
            cx.outcome("fake-masking-key-is-fresh-draw");
            // the same key must not fit an earlier attempt
            let k = cur.draws.iter().find(|d| d.len() == nh && fits(d)).unwrap();
            for prev in &s.attempts[..s.attempts.len() - 1] {
                if prev.draws.iter().any(|d| d == k) {
                    cx.violate("masking-key/reused", "two fake attempts use the same masking key".into());
                }
            }
        } else {
            cx.undetermined += 1;
            cx.outcome("fake-masking-key-unidentified");
        }
        // (4) client reaction
        let r = self.api.login_finish(&Blob::n(&self.reqs[cur.req].1), if cur.req == 0 { &p.pw } else { b"second client's password" }, &Blob::n(&cur.ke2), o(&p.ctx), o(&p.idu), o(&p.ids), None);
        match r {
            Err(e) if Some(&e) == self.wrong_pw_err.as_ref() && e == E::InvalidLogin => cx.outcome("client-fails-like-wrong-password"),
            Err(e) => cx.violate("client/error-differs", format!("client fails on a fake response with {:?}, on a wrong password with {:?}", e, self.wrong_pw_err)),
            Ok(_) => cx.violate("client/ACCEPTS-FAKE", "client login finish succeeds on a fake response".into()),
        }
        // (5) nothing completes the fake server state
        for (i, fin) in self.fin_menu.iter().enumerate() {
            if self.api.slogin_finish(&Blob::n(&cur.st), &Blob::n(fin)).is_ok() {
                cx.violate("server/COMPLETES-FAKE", format!("the fake server state completes on finalization candidate #{}", i));
            }
        }
    }
    fn describe(&self, a: &Act) -> Value {
        match a {
            Act::Fake { cid, req } => json!({"fake_attempt": {"cid": String::from_utf8_lossy(CIDS[*cid]), "request": req}}),
            Act::Real => json!("real_login"),
        }
    }
}

fn world(api: &Api, setting_ix: usize, depth: usize, seed: u64) -> Result<World, String> {
    let p = setting(setting_ix);
    let sp = api.spec;
    let mut t = Tape::seeded(seed, "c08/world");
    let er = |e: flow::StepErr| format!("{} {:?}", e.step, e.e);
    let setup = api.setup(&mut t).map_err(|e| format!("setup {:?}", e))?;
    let spk = api.setup_pk(&Blob::n(&setup)).map_err(|e| format!("{:?}", e))?;
    let reg = flow::register(api, &mut t, &setup, &p.pw, &p.cid, o(&p.idu), o(&p.ids), None).map_err(er)?;
    let honest = flow::login(api, &mut t, &setup, Some(&reg.file), &p.pw, &p.cid, o(&p.ctx), o(&p.idu), o(&p.ids), None).map_err(er)?;
    let r0 = api.login_start(&mut t, &p.pw).map_err(|e| format!("{:?}", e))?;
    let r1 = api.login_start(&mut t, b"second client's password").map_err(|e| format!("{:?}", e))?;
    // the error a wrong password gives
    let (k2, _) = api.slogin_start(&mut t, &Blob::n(&setup), Some(&Blob::n(&reg.file)), &Blob::n(&r1.0), &p.cid, o(&p.ctx), o(&p.idu), o(&p.ids)).map_err(|e| format!("{:?}", e))?;
    let wrong_pw_err = api.login_finish(&Blob::n(&r1.1), b"second client's password", &Blob::n(&k2), o(&p.ctx), o(&p.idu), o(&p.ids), None).err();
    let nh = sp.nh();
    let mut fin_menu = vec![vec![0u8; nh], vec![0xffu8; nh], honest.ke3.clone(), honest.sk_server.clone()];
    fin_menu.push(honest.ke2[honest.ke2.len() - nh..].to_vec());
    // tags an outsider can compute from public constants
    for (k, m) in [(vec![0u8; nh], vec![0u8; nh]), (vec![0u8; nh], vec![]), (vec![0xffu8; nh], vec![0xffu8; nh])] {
        fin_menu.push(crate::refmodel::hmac(sp.h(), &k, &[&m]));
    }
    let _ = NN;
    Ok(World { api: *api, seed_bytes: sp.field(Kind::Setup, "oprf_seed").of(&setup).to_vec(), p, setup, spk, file: reg.file, reqs: vec![r0, r1], real_ke2_len: honest.ke2.len(), wrong_pw_err, fin_menu, max_depth: depth, seed })
}

pub fn run(tier: Tier, seed: u64) -> i32 {
    let t0 = Instant::now();
    crate::vectors::require();
    let mut items = vec![];
    for api in all_apis() {
        for s in 0..2 {
            items.push((api, s));
        }
    }
    let depth_of = |api: &Api| {
        let slow = api.name().contains("P521") || api.name().contains("P384");
        // 7 actions per state: 7^d histories
        match (tier.thorough(), slow) {
            (false, true) => 3,
            (false, false) => 4,
            (true, true) => 4,
            (true, false) => 5,
        }
    };
    let models = std::sync::Mutex::new(vec![]);
    let mut tot = Totals::default();
    tot.merge(fw::run_items("C08", &items, |(a, _)| a.name().to_string(), |(api, s), cx| match world(api, *s, depth_of(api), seed) {
        Ok(w) => {
            // the registration-path and with-record evaluations for both requests and credential ids equal the fake path's
            for (ri, rq) in w.reqs.iter().enumerate() {
                for cid in CIDS {
                    let elem = &rq.0[..api.spec.noe()];
                    let m = api.spec.evaluate(&w.seed_bytes, cid, elem);
                    let a = api.sreg_start(&Blob::n(&w.setup), &Blob::n(elem), cid).map(|r| r[..elem.len()].to_vec());
                    let b = api.slogin_start(&mut Tape::seeded(seed, "c08/x"), &Blob::n(&w.setup), Some(&Blob::n(&w.file)), &Blob::n(&rq.0), cid, None, None, None).map(|r| r.0[..elem.len()].to_vec());
                    if a.as_ref().ok() != Some(&m) || b.as_ref().ok() != Some(&m) {
                        cx.violate_case("evaluation/paths-differ", "registration start / login start with a record do not evaluate like the reference model".into(), json!({"request": ri}));
                    }
                }
            }
            // crafted requests: the server must treat a request the same way whether or not a record exists (same
            // outcome class: a response of the same length, or the same error) - otherwise the reaction to a crafted
            // request tells registered from unregistered identifiers
            {
                let sp = api.spec;
                let lay1 = sp.layout(Kind::CredReq);
                let epk = lay1[2].clone();
                let cpk_real = sp.field(Kind::File, "client_pk").of(&w.file).to_vec();
                let mut crafted: Vec<(&str, Vec<u8>)> = vec![("honest", w.reqs[0].0.clone())];
                for (nm, val) in [("key share := registered client's static public key", cpk_real.clone()), ("key share := server static public key", w.spk.clone()), ("key share := the other request's key share", epk.of(&w.reqs[1].0).to_vec())] {
                    let mut m = w.reqs[0].0.clone();
                    m[epk.range()].copy_from_slice(&val);
                    crafted.push((nm, m));
                }
                let mut m = w.reqs[0].0.clone();
                let nf = lay1[1].clone();
                for b in m[nf.range()].iter_mut() {
                    *b = 0;
                }
                crafted.push(("client nonce := zeros", m));
                for (nm, rq) in &crafted {
                    for cid in CIDS.iter().chain([&w.p.cid[..]].iter()) {
                        cx.begin_case(json!({"crafted_request": nm, "cid": String::from_utf8_lossy(cid)}));
                        cx.edges += 2;
                        let class = |r: Result<(Vec<u8>, Vec<u8>), E>| match r {
                            Ok((k2, _)) => format!("Ok(len {})", k2.len()),
                            Err(e) => format!("Err({:?})", e),
                        };
                        let with = class(api.slogin_start(&mut Tape::seeded(seed, "c08/crafted"), &Blob::n(&w.setup), Some(&Blob::n(&w.file)), &Blob::n(rq), cid, o(&w.p.ctx), o(&w.p.idu), o(&w.p.ids)));
                        let without = class(api.slogin_start(&mut Tape::seeded(seed, "c08/crafted"), &Blob::n(&w.setup), None, &Blob::n(rq), cid, o(&w.p.ctx), o(&w.p.idu), o(&w.p.ids)));
                        if with != without {
                            cx.violate(&format!("registration-oracle/{}", nm), format!("the server reacts differently to a crafted request ({}) depending on whether a password file exists: {} vs {}", nm, with, without));
                        } else {
                            cx.outcome("crafted-request-same-reaction");
                        }
                    }
                }
            }
            // the same differential over the LENGTH of the credential identifier, context and identities (honest request):
            // a limit enforced on one of the two paths only tells the two kinds of user apart
            {
                let lens = [255usize, 256, 1000, 65535, 65536, 65537, 100_000];
                let class = |r: Result<(Vec<u8>, Vec<u8>), E>| match r {
                    Ok((k2, _)) => format!("Ok(len {})", k2.len()),
                    Err(e) => format!("Err({:?})", e),
                };
                for which in ["cid", "ctx", "idu", "ids"] {
                    for l in lens {
                        let v = vec![0x63u8; l];
                        cx.begin_case(json!({"long_parameter": which, "length": l}));
                        cx.edges += 2;
                        let (cid, ctx, idu, ids): (&[u8], Option<&[u8]>, Option<&[u8]>, Option<&[u8]>) = match which {
                            "cid" => (&v, o(&w.p.ctx), o(&w.p.idu), o(&w.p.ids)),
                            "ctx" => (&w.p.cid, Some(&v), o(&w.p.idu), o(&w.p.ids)),
                            "idu" => (&w.p.cid, o(&w.p.ctx), Some(&v), o(&w.p.ids)),
                            _ => (&w.p.cid, o(&w.p.ctx), o(&w.p.idu), Some(&v)),
                        };
                        let with = class(api.slogin_start(&mut Tape::seeded(seed, "c08/long"), &Blob::n(&w.setup), Some(&Blob::n(&w.file)), &Blob::n(&w.reqs[0].0), cid, ctx, idu, ids));
                        let without = class(api.slogin_start(&mut Tape::seeded(seed, "c08/long"), &Blob::n(&w.setup), None, &Blob::n(&w.reqs[0].0), cid, ctx, idu, ids));
                        if with != without {
                            cx.violate(&format!("registration-oracle/long-{}", which), format!("the server reacts differently to a {}-byte {} depending on whether a password file exists: {} vs {}", l, which, with, without));
                        } else {
                            cx.outcome("long-parameter-same-reaction");
                        }
                    }
                }
            }
            let st = explore::bfs(&w, cx, 1_000_000);
            models.lock().unwrap().push(json!({"suite": api.name(), "setting": s, "depth": w.max_depth, "states": st.states, "edges": st.edges, "terminals": st.terminals}));
            cx.sample(json!({"suite": api.name(), "setting": w.p.describe(), "depth": w.max_depth, "actions": ["fake(cid in {nobody, alice, empty}, request in 2)", "real_login"]}));
        }
        Err(e) => cx.violate_case("honest-step/error", e, json!({})),
    }));
    let mut cross = json!(null);
    if tier.thorough() {
        let api = all_apis()[0];
        let w = world(&api, 0, depth_of(&api), seed).unwrap();
        let mut cx = Cx::new("C08", api.name());
        let mine = explore::bfs(&w, &mut cx, 1_000_000);
        let (s, d) = explore::stateright_count(world(&api, 0, depth_of(&api), seed).unwrap(), 16);
        cross = json!({"suite": api.name(), "mine": {"states": mine.states, "depth": mine.max_depth}, "stateright": {"states": s, "depth": d}, "agree": s == mine.states && d == mine.max_depth});
        if !(s == mine.states && d == mine.max_depth) {
            tot.machinery_errors.push(format!("stateright cross-count disagrees: {}", cross));
        }
    }
    let rep = Report {
        property: "C08",
        tier,
        seed,
        rule: "explicit-state BFS over all histories of {4 fake attempts (2 credential ids x 2 requests), real login} up to the depth bound on one server tape, 2 settings x 20 suites; the 5-part invariant is evaluated on the newest fake attempt of every state against all earlier attempts of that history".into(),
        bounds: json!({"suites": 20, "settings": 2, "depth": "3-4 (quick) / 4-5 (thorough) by suite speed, 7 actions per state", "models": models.into_inner().unwrap()}),
        assumptions: vec!["'unpredictable' is decided structurally: each varying field is (derived from) a fresh full-length tape draw and never repeats; no statistical claim".into()],
        exhaustive: true,
        crosscheck: cross,
    };
    fw::finish(rep, tot, t0)
}
