//! C05 - identities, context and credential identifier are bound, unambiguously.
//! Enumerated: triples (parameters at registration, at server login start, at client login finish) - 10 slots - in
//! five families: matched families and <=k deviations from them; all 28x28 pairs of boundary-shifted splits of one
//! concatenation; all pairs of 255/256/65535-byte values differing in length or last byte; aliases that a mis-encoded
//! 2-byte length prefix of a 255..513-byte context / client identity would create; all ordered pairs of
//! credential identifiers; and (thorough, fast suites) the full product over a 5x5x4 alphabet.
//! Ghost oracle from the specification: effective identity = given value or that party's static public key;
//! effective context = given or empty.  Login succeeds (with equal keys) iff the three effective client identities
//! agree, the three server identities agree, both contexts agree and the credential ids agree; otherwise
//! ClientLogin::finish must fail.
use super::common::*;
use crate::adapter::Blob;
use crate::alphabet::{self as al, desc};
use crate::api::Api;
use crate::fw::{self, h128, Cx, Report, Tier, Totals};
use crate::tape::Tape;
use serde_json::{json, Value};
use std::collections::HashMap;
use std::time::Instant;

#[derive(Clone, Debug, PartialEq, Eq, Hash)]
pub enum V {
    Absent,
    B(Vec<u8>),
    /// explicit spelling of the party's static public key
    Pk,
}
impl V {
    fn d(&self) -> Value {
        match self {
            V::Absent => json!("absent"),
            V::Pk => json!("explicit public key"),
            V::B(b) => desc(b),
        }
    }
    fn resolve(&self, pk: &[u8]) -> Option<Vec<u8>> {
        match self {
            V::Absent => None,
            V::Pk => Some(pk.to_vec()),
            V::B(b) => Some(b.clone()),
        }
    }
    fn eff(&self, pk: &[u8]) -> Vec<u8> {
        self.resolve(pk).unwrap_or_else(|| pk.to_vec())
    }
    fn eff_ctx(&self) -> Vec<u8> {
        match self {
            V::B(b) => b.clone(),
            _ => vec![],
        }
    }
}
#[derive(Clone, Debug, PartialEq, Eq, Hash)]
pub struct Triple {
    fam: &'static str,
    r_idu: V,
    r_ids: V,
    r_cid: Vec<u8>,
    s_ctx: V,
    s_idu: V,
    s_ids: V,
    s_cid: Vec<u8>,
    c_ctx: V,
    c_idu: V,
    c_ids: V,
}
impl Triple {
    fn matched(fam: &'static str, u: &V, s: &V, c: &V, cid: &[u8]) -> Triple {
        Triple { fam, r_idu: u.clone(), r_ids: s.clone(), r_cid: cid.to_vec(), s_ctx: c.clone(), s_idu: u.clone(), s_ids: s.clone(), s_cid: cid.to_vec(), c_ctx: c.clone(), c_idu: u.clone(), c_ids: s.clone() }
    }
    fn describe(&self) -> Value {
        json!({"family": self.fam,
            "registration": {"idu": self.r_idu.d(), "ids": self.r_ids.d(), "cid": desc(&self.r_cid)},
            "server_login": {"ctx": self.s_ctx.d(), "idu": self.s_idu.d(), "ids": self.s_ids.d(), "cid": desc(&self.s_cid)},
            "client_login": {"ctx": self.c_ctx.d(), "idu": self.c_idu.d(), "ids": self.c_ids.d()}})
    }
    /// slot accessors for deviation enumeration: 0..10
    fn set(&mut self, slot: usize, idv: &[V], ctxv: &[V], cidv: &[Vec<u8>], val: usize) -> bool {
        match slot {
            0 => val < idv.len() && { self.r_idu = idv[val].clone(); true },
            1 => val < idv.len() && { self.r_ids = idv[val].clone(); true },
            2 => val < cidv.len() && { self.r_cid = cidv[val].clone(); true },
            3 => val < ctxv.len() && { self.s_ctx = ctxv[val].clone(); true },
            4 => val < idv.len() && { self.s_idu = idv[val].clone(); true },
            5 => val < idv.len() && { self.s_ids = idv[val].clone(); true },
            6 => val < cidv.len() && { self.s_cid = cidv[val].clone(); true },
            7 => val < ctxv.len() && { self.c_ctx = ctxv[val].clone(); true },
            8 => val < idv.len() && { self.c_idu = idv[val].clone(); true },
            _ => val < idv.len() && { self.c_ids = idv[val].clone(); true },
        }
    }
}

fn deviate(base: &Triple, k: usize, idv: &[V], ctxv: &[V], cidv: &[Vec<u8>], out: &mut Vec<Triple>) {
    let sizes: Vec<usize> = (0..10).map(|s| match s { 2 | 6 => cidv.len() + 1, 3 | 7 => ctxv.len() + 1, _ => idv.len() + 1 }).collect();
    for ix in al::deviations(&sizes, k) {
        let mut t = base.clone();
        for (slot, v) in ix.iter().enumerate() {
            if *v > 0 {
                t.set(slot, idv, ctxv, cidv, v - 1);
            }
        }
        out.push(t);
    }
}

fn idv_of(tier: Tier) -> Vec<V> {
    let base = if tier.thorough() { al::idvals_full() } else { al::idvals_core() };
    let mut v: Vec<V> = base.into_iter().map(|x| x.map_or(V::Absent, V::B)).collect();
    v.push(V::Pk);
    v
}
fn ctxv_of() -> Vec<V> {
    al::ctxvals_full().into_iter().map(|x| x.map_or(V::Absent, V::B)).collect()
}

pub fn triples(tier: Tier) -> Vec<Triple> {
    let idv = idv_of(tier);
    let ctxv = ctxv_of();
    let cidv = if tier.thorough() { al::cids_full() } else { al::cids_core() };
    let small_id = vec![V::Absent, V::B(vec![]), V::B(b"u".to_vec()), V::Pk];
    let small_ctx = vec![V::Absent, V::B(vec![]), V::B(b"c".to_vec())];
    let small_cid = vec![al::CID_DEFAULT.to_vec(), vec![], b"alice2".to_vec()];
    let mut out = vec![];
    let dflt = Triple::matched("default+deviations", &V::Absent, &V::Absent, &V::Absent, al::CID_DEFAULT);
    // (ii-a) <=2 (quick) / <=3 (thorough) deviations from the default family over a small alphabet
    deviate(&dflt, if tier.thorough() { 3 } else { 2 }, &small_id, &small_ctx, &small_cid, &mut out);
    // (i)+(ii-b) matched families (one dimension varied at a time) and <=1 (quick) / <=2 (thorough) deviations
    let mut fams = vec![];
    for u in &idv {
        fams.push(Triple::matched("matched+deviations", u, &V::Absent, &V::Absent, al::CID_DEFAULT));
    }
    for s in &idv {
        fams.push(Triple::matched("matched+deviations", &V::Absent, s, &V::Absent, al::CID_DEFAULT));
    }
    for c in &ctxv {
        fams.push(Triple::matched("matched+deviations", &V::Absent, &V::Absent, c, al::CID_DEFAULT));
    }
    for cid in &cidv {
        fams.push(Triple::matched("matched+deviations", &V::Absent, &V::Absent, &V::Absent, cid));
    }
    fams.push(Triple::matched("matched+deviations", &V::B(b"user".to_vec()), &V::B(b"server".to_vec()), &V::B(b"ctx".to_vec()), b"cid"));
    let core_id: Vec<V> = if tier.thorough() { idv.clone() } else { vec![V::Absent, V::B(vec![]), V::B(b"u".to_vec()), V::B(vec![b'i'; 255]), V::B(vec![b'i'; 256]), V::Pk] };
    for f in &fams {
        deviate(f, if tier.thorough() { 2 } else { 1 }, &core_id, &ctxv, &cidv, &mut out);
    }
    // (iii) boundary-shifted splits of one concatenation: server (and registration) use split A, client split B
    let sp = al::splits();
    for a in &sp {
        for b in &sp {
            out.push(Triple {
                fam: "splits",
                r_idu: V::B(a.1.clone()),
                r_ids: V::B(a.2.clone()),
                r_cid: al::CID_DEFAULT.to_vec(),
                s_ctx: V::B(a.0.clone()),
                s_idu: V::B(a.1.clone()),
                s_ids: V::B(a.2.clone()),
                s_cid: al::CID_DEFAULT.to_vec(),
                c_ctx: V::B(b.0.clone()),
                c_idu: V::B(b.1.clone()),
                c_ids: V::B(b.2.clone()),
            });
        }
    }
    // (iii-b) boundary-shifted splits of one LONG concatenation (pieces around 128/256 bytes, where buffered or
    // block-wise hashing of the transcript could lose a length prefix)
    let x: Vec<u8> = (0..600u32).map(|i| (i % 251) as u8).collect();
    let mut lsp = vec![];
    let (is, js): (Vec<usize>, Vec<usize>) = if tier.thorough() { (vec![127, 128, 129, 130, 255, 256, 257], vec![128, 129, 130]) } else { (vec![129, 130, 256], vec![129, 130]) };
    for i in is {
        for j in js.iter().map(|d| i + d) {
            lsp.push((x[..i].to_vec(), x[i..j].to_vec(), x[j..].to_vec()));
        }
    }
    for a in &lsp {
        for b in &lsp {
            out.push(Triple {
                fam: "long-splits",
                r_idu: V::B(a.1.clone()),
                r_ids: V::B(a.2.clone()),
                r_cid: al::CID_DEFAULT.to_vec(),
                s_ctx: V::B(a.0.clone()),
                s_idu: V::B(a.1.clone()),
                s_ids: V::B(a.2.clone()),
                s_cid: al::CID_DEFAULT.to_vec(),
                c_ctx: V::B(b.0.clone()),
                c_idu: V::B(b.1.clone()),
                c_ids: V::B(b.2.clone()),
            });
            // the registration may also have used the client's split (then only the 3DH transcript separates them)
            out.push(Triple {
                fam: "long-splits",
                r_idu: V::B(b.1.clone()),
                r_ids: V::B(b.2.clone()),
                r_cid: al::CID_DEFAULT.to_vec(),
                s_ctx: V::B(a.0.clone()),
                s_idu: V::B(a.1.clone()),
                s_ids: V::B(a.2.clone()),
                s_cid: al::CID_DEFAULT.to_vec(),
                c_ctx: V::B(b.0.clone()),
                c_idu: V::B(b.1.clone()),
                c_ids: V::B(b.2.clone()),
            });
        }
    }
    // (iv) long values differing only in length or in the last byte, per dimension
    let mk = |n: usize, last: Option<u8>| {
        let mut v = vec![b'i'; n];
        if let Some(l) = last {
            *v.last_mut().unwrap() = l;
        }
        V::B(v)
    };
    let longs = vec![mk(255, None), mk(256, None), mk(255, Some(b'j')), mk(256, Some(b'j')), mk(65535, None), mk(65534, None), mk(65535, Some(b'j'))];
    for x in &longs {
        for y in &longs {
            // context: server x, client y
            let mut t = Triple::matched("long-values/ctx", &V::Absent, &V::Absent, x, al::CID_DEFAULT);
            t.c_ctx = y.clone();
            out.push(t);
            // client identity: registration+server x, client y ; registration x, server+client y
            let mut t = Triple::matched("long-values/idu", x, &V::Absent, &V::Absent, al::CID_DEFAULT);
            t.c_idu = y.clone();
            out.push(t.clone());
            t.s_idu = y.clone();
            out.push(t);
            let mut t = Triple::matched("long-values/ids", &V::Absent, x, &V::Absent, al::CID_DEFAULT);
            t.c_ids = y.clone();
            out.push(t.clone());
            t.s_ids = y.clone();
            out.push(t);
        }
    }
    // (iv-b) values beyond the 65535-byte limit: never a match, whatever the other side uses (same value, another
    // over-long value, the value truncated to 65535 bytes, or the value reduced modulo 65536 = empty)
    let over = |c: u8| V::B(vec![c; 65536]);
    for (x, y) in [(over(b'i'), over(b'i')), (over(b'i'), over(b'j')), (over(b'i'), mk(65535, None)), (mk(65535, None), over(b'i')), (over(b'i'), V::B(vec![])), (V::B(vec![]), over(b'i')), (over(b'i'), V::Absent)] {
        let mut t = Triple::matched("over-limit/ctx", &V::Absent, &V::Absent, &x, al::CID_DEFAULT);
        t.c_ctx = y.clone();
        out.push(t);
        let mut t = Triple::matched("over-limit/idu", &V::Absent, &V::Absent, &V::Absent, al::CID_DEFAULT);
        t.s_idu = x.clone();
        t.c_idu = y.clone();
        out.push(t);
        let mut t = Triple::matched("over-limit/ids", &V::Absent, &V::Absent, &V::Absent, al::CID_DEFAULT);
        t.s_ids = x.clone();
        t.c_ids = y.clone();
        out.push(t);
    }
    // (iv-c) near-miss values (trailing space, case, NUL, prefix, ...): all ordered pairs per dimension
    let nm: Vec<V> = al::near_misses(b"user").into_iter().map(V::B).collect();
    for x in &nm {
        for y in &nm {
            let mut t = Triple::matched("near-miss/ctx", &V::Absent, &V::Absent, x, al::CID_DEFAULT);
            t.c_ctx = y.clone();
            out.push(t);
            let mut t = Triple::matched("near-miss/idu", x, &V::Absent, &V::Absent, al::CID_DEFAULT);
            t.c_idu = y.clone();
            t.s_idu = y.clone();
            out.push(t);
            let mut t = Triple::matched("near-miss/ids", &V::Absent, x, &V::Absent, al::CID_DEFAULT);
            t.c_ids = y.clone();
            out.push(t);
        }
    }
    // (iv-d) aliases under a MIS-ENCODED LENGTH PREFIX: if the 2-byte length of an L-byte context (or client identity)
    // were written as some smaller l (wrapped, reduced, shifted, truncated), then the value cut after l bytes followed by
    // the NEXT field made of the rest - with the rest's own length spelled inside the long value at offset l - would give
    // the same transcript.  Every such pair differs in its effective values, so the login must fail; both directions.
    let i2 = |n: usize| [(n >> 8) as u8, (n & 255) as u8];
    for big in [255usize, 256, 257, 510, 511, 512, 513] {
        let mut ls = vec![0usize, 1, 2, 3, big % 255, big % 256, big >> 8, big & 0x7f, big - 255];
        ls.sort();
        ls.dedup();
        for l in ls.into_iter().filter(|l| l + 2 <= big) {
            // context C (big bytes) + client identity "alice"  ~  context C[..l] + client identity C[l+2..] || 00 05 || "alice"
            let tail = b"alice";
            let mut c = vec![b'c'; big];
            let next_len = big - l - 2 + 2 + tail.len();
            c[l..l + 2].copy_from_slice(&i2(next_len));
            let next: Vec<u8> = [&c[l + 2..], &i2(tail.len())[..], &tail[..]].concat();
            let (long_ctx, long_idu) = (V::B(c.clone()), V::B(tail.to_vec()));
            let (short_ctx, short_idu) = (V::B(c[..l].to_vec()), V::B(next.clone()));
            for (sc, su, cc, cu) in [(&short_ctx, &short_idu, &long_ctx, &long_idu), (&long_ctx, &long_idu, &short_ctx, &short_idu)] {
                let mut t = Triple::matched("length-prefix-alias/ctx->idu", cu, &V::Absent, cc, al::CID_DEFAULT);
                t.s_ctx = sc.clone();
                t.s_idu = su.clone();
                out.push(t);
            }
            // client identity U (big bytes) + server identity "server"  ~  client identity U[..l] + server identity U[l+2..] || 00 06 || "server"
            let tail = b"server";
            let mut u = vec![b'u'; big];
            let next_len = big - l - 2 + 2 + tail.len();
            u[l..l + 2].copy_from_slice(&i2(next_len));
            let next: Vec<u8> = [&u[l + 2..], &i2(tail.len())[..], &tail[..]].concat();
            let (long_u, long_s) = (V::B(u.clone()), V::B(tail.to_vec()));
            let (short_u, short_s) = (V::B(u[..l].to_vec()), V::B(next));
            for (su, ss, cu, cs) in [(&short_u, &short_s, &long_u, &long_s), (&long_u, &long_s, &short_u, &short_s)] {
                let mut t = Triple::matched("length-prefix-alias/idu->ids", cu, cs, &V::Absent, al::CID_DEFAULT);
                t.s_idu = su.clone();
                t.s_ids = ss.clone();
                out.push(t);
            }
        }
    }
    // (v) all ordered pairs of credential identifiers
    for a in al::cids_full() {
        for b in al::cids_full() {
            let mut t = Triple::matched("cid-pairs", &V::Absent, &V::Absent, &V::Absent, &a);
            t.s_cid = b.clone();
            out.push(t);
        }
    }
    let mut seen = std::collections::HashSet::new();
    out.retain(|t| {
        let mut t2 = t.clone();
        t2.fam = "";
        seen.insert(h128(&t2))
    });
    out
}

/// full product over a 5x5x4 alphabet (thorough, fast suites)
fn product_triples() -> Vec<Triple> {
    let ids = vec![V::Absent, V::B(vec![]), V::B(b"u".to_vec()), V::B(vec![b'i'; 256]), V::Pk];
    let ctx = vec![V::Absent, V::B(vec![]), V::B(b"c".to_vec()), V::B(vec![b'k'; 256])];
    let mut out = vec![];
    for ru in &ids {
        for rs in &ids {
            for sc in &ctx {
                for su in &ids {
                    for ss in &ids {
                        for cc in &ctx {
                            for cu in &ids {
                                for cs in &ids {
                                    out.push(Triple { fam: "full-product", r_idu: ru.clone(), r_ids: rs.clone(), r_cid: al::CID_DEFAULT.to_vec(), s_ctx: sc.clone(), s_idu: su.clone(), s_ids: ss.clone(), s_cid: al::CID_DEFAULT.to_vec(), c_ctx: cc.clone(), c_idu: cu.clone(), c_ids: cs.clone() });
                                }
                            }
                        }
                    }
                }
            }
        }
    }
    out
}

const PW: &[u8] = b"correct horse";

pub fn explore(api: &Api, ts: &[Triple], seed: u64, cx: &mut Cx, mode: Mode) {
    let sp = api.spec;
    let npk = sp.npk();
    let mut t0 = Tape::seeded(seed, "c05/setup");
    let setup = match api.setup(&mut t0) {
        Ok(s) => s,
        Err(e) => {
            cx.violate_case("honest-step/error", format!("setup {:?}", e), json!({}));
            return;
        }
    };
    let spk = api.setup_pk(&Blob::n(&setup)).unwrap_or_default();
    let (ke1, cst) = match api.login_start(&mut Tape::seeded(seed, "c05/client"), PW) {
        Ok(x) => x,
        Err(e) => {
            cx.violate_case("honest-step/error", format!("login_start {:?}", e), json!({}));
            return;
        }
    };
    cx.context_done();
    // caches: client public key per credential id; password file per registration parameters; server session per (file, S)
    let mut cpk_of: HashMap<Vec<u8>, Vec<u8>> = HashMap::new();
    let mut files: HashMap<u128, Vec<u8>> = HashMap::new();
    let mut sessions: HashMap<u128, (Vec<u8>, Vec<u8>)> = HashMap::new();
    let reg = |api: &Api, cid: &[u8], idu: Option<&[u8]>, ids: Option<&[u8]>| -> Result<Vec<u8>, String> {
        // fixed registration tape: the envelope nonce, hence the client key pair, is the same for every spelling
        let mut t = Tape::seeded(seed, "c05/reg");
        crate::flow::register(api, &mut t, &setup, PW, cid, idu, ids, None).map(|r| r.file).map_err(|e| format!("{} {:?}", e.step, e.e))
    };
    for tr in ts {
        cx.begin_case(tr.describe());
        if mode == Mode::Own {
            if !cx.state(tr) {
                continue;
            }
            cx.path();
        }
        let cpk = match cpk_of.get(&tr.r_cid) {
            Some(k) => k.clone(),
            None => match reg(api, &tr.r_cid, None, None) {
                Ok(f) => {
                    cpk_of.insert(tr.r_cid.clone(), f[..npk].to_vec());
                    f[..npk].to_vec()
                }
                Err(e) => {
                    cx.violate("honest-step/error", e);
                    continue;
                }
            },
        };
        let rk = h128(&(&tr.r_idu, &tr.r_ids, &tr.r_cid));
        if !files.contains_key(&rk) {
            match reg(api, &tr.r_cid, tr.r_idu.resolve(&cpk).as_deref(), tr.r_ids.resolve(&spk).as_deref()) {
                Ok(f) => {
                    if f[..npk] != cpk[..] {
                        cx.violate("machinery/client-pk", "client public key depends on the identities (harness assumption broken)".into());
                        continue;
                    }
                    files.insert(rk, f);
                }
                Err(e) => {
                    honest_fail(cx, mode, "registration-fails", format!("registration with valid parameters fails: {}", e));
                    continue;
                }
            }
        }
        let file = files[&rk].clone();
        let sk_ = h128(&(rk, &tr.s_ctx, &tr.s_idu, &tr.s_ids, &tr.s_cid));
        if !sessions.contains_key(&sk_) {
            let mut t = Tape::seeded(seed, "c05/server");
            match api.slogin_start(&mut t, &Blob::n(&setup), Some(&Blob::n(&file)), &Blob::n(&ke1), &tr.s_cid, tr.s_ctx.resolve(&[]).as_deref(), tr.s_idu.resolve(&cpk).as_deref(), tr.s_ids.resolve(&spk).as_deref()) {
                Ok(x) => {
                    sessions.insert(sk_, x);
                }
                Err(e) => {
                    if tr.fam.starts_with("over-limit") {
                        cx.outcome("rejected-over-limit");
                    } else {
                        honest_fail(cx, mode, "server-start-fails", format!("server login start with valid parameters fails: {:?}", e));
                    }
                    continue;
                }
            }
        }
        let (ke2, sst) = sessions[&sk_].clone();
        // ghost oracle
        let u_ok = tr.r_idu.eff(&cpk) == tr.s_idu.eff(&cpk) && tr.s_idu.eff(&cpk) == tr.c_idu.eff(&cpk);
        let s_ok = tr.r_ids.eff(&spk) == tr.s_ids.eff(&spk) && tr.s_ids.eff(&spk) == tr.c_ids.eff(&spk);
        let c_ok = tr.s_ctx.eff_ctx() == tr.c_ctx.eff_ctx();
        let cid_ok = tr.r_cid == tr.s_cid;
        let over_limit = [&tr.s_ctx, &tr.s_idu, &tr.s_ids, &tr.c_ctx, &tr.c_idu, &tr.c_ids].iter().any(|v| matches!(v, V::B(b) if b.len() > 65535));
        let expect = u_ok && s_ok && c_ok && cid_ok && !over_limit;
        let mism = || {
            let mut v = vec![];
            if !u_ok { v.push("idu") }
            if !s_ok { v.push("ids") }
            if !c_ok { v.push("ctx") }
            if !cid_ok { v.push("cid") }
            if v.is_empty() { v.push("over-limit-value") }
            v.join("+")
        };
        if mode == Mode::Honest {
            if !expect || !cx.state(tr) {
                continue;
            }
            cx.path();
        }
        cx.edges += 1;
        let r = api.login_finish(&Blob::n(&cst), PW, &Blob::n(&ke2), tr.c_ctx.resolve(&[]).as_deref(), tr.c_idu.resolve(&cpk).as_deref(), tr.c_ids.resolve(&spk).as_deref(), None);
        match (r, expect) {
            (Ok((fin, sk, _, _)), true) => match api.slogin_finish(&Blob::n(&sst), &Blob::n(&fin)) {
                Ok(k) if k == sk => cx.outcome("accepted-matched"),
                Ok(_) => cx.violate(&format!("key-mismatch/{}", tr.fam), "session keys differ in an accepted login".into()),
                Err(e) => honest_fail(cx, mode, &format!("server-rejects-matched/{}", tr.fam), format!("server rejects the finalization of a matched login: {:?}", e)),
            },
            (Err(_), false) => cx.outcome("rejected-mismatch"),
            (Ok(_), false) => {
                cx.outcome("ACCEPTED-MISMATCH");
                cx.violate(&format!("ACCEPTED-MISMATCH/{}/{}", mism(), tr.fam), format!("login succeeds although the parties disagree on {} (family {})", mism(), tr.fam));
            }
            (Err(e), true) => {
                cx.outcome("REJECTED-MATCHED");
                // the property itself defines "absent context = empty string" and "absent identity = that party's
                // public key": a matched login that fails only because the parties SPELL the same value differently
                // breaks that clause (C05's verdict); one that fails with identical spelling everywhere is an honest
                // failure (C01's verdict, a precondition here)
                let mut sp = vec![];
                if tr.s_ctx != tr.c_ctx { sp.push("ctx") }
                if tr.r_idu != tr.s_idu || tr.s_idu != tr.c_idu { sp.push("idu") }
                if tr.r_ids != tr.s_ids || tr.s_ids != tr.c_ids { sp.push("ids") }
                if !sp.is_empty() && mode == Mode::Own {
                    cx.violate(&format!("rejects-equivalent-spelling/{}/{}", sp.join("+"), tr.fam), format!("login fails although the parties use the same effective values and differ only in how {} is spelled (absent vs the empty string / the public key): {:?} ({})", sp.join("+"), e, tr.describe()));
                } else {
                    honest_fail(cx, mode, &format!("rejects-matched/{}", tr.fam), format!("login whose parties agree on the effective identities, context and credential id fails: {:?} ({})", e, tr.describe()));
                }
            }
        }
    }
    if let Some(t) = ts.first() {
        cx.sample(json!({"suite": api.name(), "triples_in_item": ts.len(), "first": t.describe()}));
    }
}

pub fn run(tier: Tier, seed: u64) -> i32 {
    let t0 = Instant::now();
    let ts = triples(tier);
    let mut fam_counts: std::collections::BTreeMap<&str, usize> = Default::default();
    for t in &ts {
        *fam_counts.entry(t.fam).or_insert(0) += 1;
    }
    // chunk by registration parameters so that caches are effective
    let mut sorted = ts.clone();
    sorted.sort_by_key(|t| h128(&(&t.r_idu, &t.r_ids, &t.r_cid)));
    let nchunks = 8;
    let per = (sorted.len() + nchunks - 1) / nchunks;
    let chunks: Vec<Vec<Triple>> = sorted.chunks(per).map(|c| c.to_vec()).collect();
    let mut items: Vec<(Api, Vec<Triple>)> = vec![];
    for api in all_apis() {
        for c in &chunks {
            items.push((api, c.clone()));
        }
    }
    let mut tot = Totals::default();
    tot.merge(fw::run_items("C05", &items, |(a, _)| a.name().to_string(), |(api, c), cx| explore(api, c, seed, cx, Mode::Own)));
    let mut product_n = 0;
    if tier.thorough() {
        let mut p = product_triples();
        product_n = p.len();
        p.sort_by_key(|t| h128(&(&t.r_idu, &t.r_ids, &t.r_cid)));
        let mut items: Vec<(Api, Vec<Triple>)> = vec![];
        for api in all_apis().into_iter().filter(|a| ["RisRis", "RisC25"].contains(&a.name())) {
            for c in p.chunks(p.len() / 25) {
                items.push((api, c.to_vec()));
            }
        }
        tot.merge(fw::run_items("C05", &items, |(a, _)| a.name().to_string(), |(api, c), cx| explore(api, c, seed, cx, Mode::Own)));
    }
    let rep = Report {
        property: "C05",
        tier,
        seed,
        rule: "every parameter triple of the five families (and the full 5x5x4 product on the two fastest suites in the thorough tier) is run as registration -> server login start -> client login finish (-> server finish) on the real code; a state is a distinct triple; ghost oracle from the specification's defaulting rules".into(),
        bounds: json!({"suites": 20, "triples_per_suite": ts.len(), "families": fam_counts, "full_product_triples": product_n, "deviation_bounds": if tier.thorough() {"<=3 from default (small alphabet), <=2 from each matched family"} else {"<=2 from default (small alphabet), <=1 from each matched family"}}),
        assumptions: vec!["the client key pair does not depend on the identities (checked at run time for every registration)".into()],
        exhaustive: true,
        crosscheck: json!(null),
    };
    fw::finish(rep, tot, t0)
}
