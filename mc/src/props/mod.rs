//! One closed driver per property: alphabet + bound + oracle (DESIGN.md section 3).
use crate::fw::Tier;

pub mod c01;
pub mod c02;
pub mod c03;
pub mod c04;
pub mod c05;
pub mod c06;
pub mod c07;
pub mod c08;
pub mod c09;
pub mod c10;
pub mod c11;
pub mod c12;
pub mod c13;
pub mod c14;
pub mod c15;
pub mod c16;
pub mod c17;
pub mod c18;
pub mod c19;
pub mod common;

pub fn run(prop: &str, tier: Tier, seed: u64) -> i32 {
    match prop {
        "C01" => c01::run(tier, seed),
        "C02" => c02::run(tier, seed),
        "C03" => c03::run(tier, seed),
        "C04" => c04::run(tier, seed),
        "C05" => c05::run(tier, seed),
        "C06" => c06::run(tier, seed),
        "C07" => c07::run(tier, seed),
        "C08" => c08::run(tier, seed),
        "C09" => c09::run(tier, seed),
        "C10" => c10::run(tier, seed),
        "C11" => c11::run(tier, seed),
        "C12" => c12::run(tier, seed),
        "C13" => c13::run(tier, seed),
        "C14" => c14::run(tier, seed),
        "C15" => c15::run(tier, seed),
        "C16" => c16::run(tier, seed),
        "C17" => c17::run(tier, seed),
        "C18" => c18::run(tier, seed),
        "C19" => c19::run(tier, seed),
        _ => {
            eprintln!("unknown property {prop}");
            2
        }
    }
}
