//! C06 - the password file is bound to the server's static key.
//! Enumerated: setups {genuine S; S' = S's OPRF seed + fresh static key; S'' = S's seed + another real server's key;
//! control S''' = other seed + S's key} built by splicing ServerSetup bytes; registrations at S over identity /
//! context settings x 3 passwords; the honest client then logs in against each setup serving the stolen file, the
//! impostor choosing its identity parameters freely (same as honest / genuine key spelled out / own key spelled out).
//! Oracle: against S the login succeeds and the three reported public keys equal S's; against every other setup
//! the client's final step fails.
use super::common::*;
use crate::adapter::Blob;
use crate::alphabet::{desc, odesc};
use crate::api::Api;
use crate::flow::{self, o};
use crate::fw::{self, Cx, Report, Tier};
use crate::refmodel::Kind;
use crate::tape::Tape;
use serde_json::json;
use std::time::Instant;

fn explore(api: &Api, seed: u64, cx: &mut Cx) {
    let sp = api.spec;
    let mut t = Tape::seeded(seed, "c06");
    let (s, s_fresh, s_other) = match (api.setup(&mut t), api.setup(&mut t), api.setup(&mut t)) {
        (Ok(a), Ok(b), Ok(c)) => (a, b, c),
        _ => {
            cx.violate_case("honest-step/error", "setup failed".into(), json!({}));
            return;
        }
    };
    let seedf = sp.field(Kind::Setup, "oprf_seed");
    let skf = sp.field(Kind::Setup, "server_sk");
    let splice = |seed_from: &[u8], sk_from: &[u8]| {
        let mut b = s.clone();
        b[seedf.range()].copy_from_slice(seedf.of(seed_from));
        b[skf.range()].copy_from_slice(skf.of(sk_from));
        b
    };
    let setups: Vec<(&str, Vec<u8>, bool)> = vec![
        ("S (genuine)", s.clone(), true),
        ("S' (same seed, fresh static key)", splice(&s, &s_fresh), false),
        ("S'' (same seed, another server's key)", splice(&s, &s_other), false),
        ("S''' (other seed, same static key)", splice(&s_other, &s), false),
        ("another server entirely", s_other.clone(), false),
    ];
    let spk = api.setup_pk(&Blob::n(&s)).unwrap_or_default();
    cx.context_done();
    let pws: [&[u8]; 3] = [b"correct horse", b"", b"another password, longer"];
    let idus: [Option<Vec<u8>>; 2] = [None, Some(b"user".to_vec())];
    // server identities: absent, a name, the genuine key spelled out, and a name that happens to be exactly as long as
    // a public key (a value that could be mistaken for one)
    let idss: [Option<Vec<u8>>; 4] = [None, Some(b"server".to_vec()), Some(spk.clone()), Some(vec![b's'; spk.len()])];
    let ctxs: [Option<Vec<u8>>; 2] = [None, Some(b"c".to_vec())];
    for pw in pws {
        for idu in &idus {
            for ids in &idss {
                let reg = match flow::register(api, &mut t, &s, pw, b"alice", o(idu), o(ids), None) {
                    Ok(r) => r,
                    Err(e) => {
                        cx.violate_case("honest-step/error", format!("{} {:?}", e.step, e.e), json!({}));
                        continue;
                    }
                };
                if reg.spk_seen != spk {
                    cx.violate_case("registration-reports-other-key", "the server public key reported at registration is not the setup's".into(), json!({"pw": desc(pw)}));
                }
                for ctx in &ctxs {
                    let (ke1, cst) = match api.login_start(&mut t, pw) {
                        Ok(x) => x,
                        Err(e) => {
                            cx.violate_case("honest-step/error", format!("login_start {:?}", e), json!({}));
                            continue;
                        }
                    };
                    for (sname, sb, genuine) in &setups {
                        let own_pk = api.setup_pk(&Blob::n(sb)).unwrap_or_default();
                        // the serving party's choice of server identity
                        let mut variants: Vec<(&str, Option<Vec<u8>>)> = vec![("as-registered", ids.clone())];
                        if !genuine {
                            variants.push(("genuine-key-spelled-out", Some(spk.clone())));
                            variants.push(("own-key-spelled-out", Some(own_pk.clone())));
                            variants.push(("absent", None));
                        }
                        for (vn, sids) in variants {
                            cx.begin_case(json!({"pw": desc(pw), "idu": odesc(idu), "ids_at_registration": odesc(ids), "ctx": odesc(ctx), "served_by": sname, "server_identity_used_by_serving_party": vn}));
                            if !cx.state(&(pw, idu, ids, ctx, sname, vn)) {
                                continue;
                            }
                            cx.edges += 2;
                            cx.path();
                            let (ke2, sst) = match api.slogin_start(&mut t, &Blob::n(sb), Some(&Blob::n(&reg.file)), &Blob::n(&ke1), b"alice", o(ctx), o(idu), o(&sids)) {
                                Ok(x) => x,
                                Err(e) => {
                                    if *genuine {
                                        cx.violate("honest-step/slogin_start", format!("{:?}", e));
                                    } else {
                                        cx.outcome("impostor-rejected");
                                    }
                                    continue;
                                }
                            };
                            let r = api.login_finish(&Blob::n(&cst), pw, &Blob::n(&ke2), o(ctx), o(idu), o(ids), None);
                            match (r, *genuine) {
                                (Ok((fin, sk, ek, pk_seen)), true) => {
                                    if pk_seen != spk || ek != reg.export {
                                        cx.violate("genuine/wrong-key-reported", "login against the genuine server reports another server key or export key".into());
                                    }
                                    match api.slogin_finish(&Blob::n(&sst), &Blob::n(&fin)) {
                                        Ok(k) if k == sk => cx.outcome("genuine-accepted"),
                                        _ => cx.violate("honest-step/genuine-server-finish", "genuine server cannot complete".into()),
                                    }
                                }
                                (Err(e), true) => cx.violate("honest-step/genuine-login-rejected", format!("login against the genuine server fails: {:?}", e)),
                                (Err(_), false) => cx.outcome("impostor-rejected"),
                                (Ok(_), false) => {
                                    cx.outcome("IMPOSTOR-ACCEPTED");
                                    cx.violate(&format!("IMPOSTOR-ACCEPTED/{}/{}", sname, vn), format!("the client completes a login against {} serving the stolen password file", sname));
                                }
                            }
                        }
                    }
                }
            }
        }
    }
    cx.sample(json!({"suite": api.name(), "setups": setups.iter().map(|s| s.0).collect::<Vec<_>>(), "settings": "3 passwords x 2 client ids x 4 server ids x 2 contexts"}));
}

pub fn run(tier: Tier, seed: u64) -> i32 {
    let t0 = Instant::now();
    let items = all_apis();
    let tot = fw::run_items("C06", &items, |a| a.name().to_string(), |api, cx| explore(api, seed, cx));
    let rep = Report {
        property: "C06",
        tier,
        seed,
        rule: "complete product: 48 registration/context settings x 5 serving setups (genuine, 3 key/seed splices, unrelated server) x the serving party's identity choices; each is one login against the stolen file".into(),
        bounds: json!({"suites": 20, "setups": 5, "settings": 48, "impostor_identity_variants": 4, "quick_equals_thorough": true}),
        assumptions: vec!["impostor setups are built by splicing serialized ServerSetup fields (seed, static key)".into()],
        exhaustive: true,
        crosscheck: json!(null),
    };
    fw::finish(rep, tot, t0)
}
