//! Shared finite input alphabets (DESIGN.md section 2.5) and deviation-bounded tuple enumeration.
use serde_json::{json, Value};
use sha2::{Digest, Sha256};

pub type Bytes = Vec<u8>;
pub type OBytes = Option<Vec<u8>>;

/// compact description of a byte string for case descriptions / samples
pub fn desc(b: &[u8]) -> Value {
    if b.len() <= 24 {
        json!(hex::encode(b))
    } else {
        json!({"len": b.len(), "head": hex::encode(&b[..8]), "tail": hex::encode(&b[b.len()-4..]), "sha256": hex::encode(&Sha256::digest(b)[..6])})
    }
}
pub fn odesc(b: &Option<Vec<u8>>) -> Value {
    match b {
        None => json!("absent"),
        Some(b) => desc(b),
    }
}

pub const PW_DEFAULT: &[u8] = b"correct horse";

/// Passwords (16).  Index 0 is the default.  The last one is over the 65535-byte limit (C12 only).
pub fn passwords_full() -> Vec<Bytes> {
    let d = PW_DEFAULT.to_vec();
    let mut flipped = d.clone();
    *flipped.last_mut().unwrap() ^= 1;
    let mut v = vec![
        d.clone(),
        vec![],
        b"a".to_vec(),
        flipped,
        [&d[..], b" "].concat(),
        b"Correct Horse".to_vec(),
        [&d[..], &[0u8]].concat(),
        vec![0u8],
        d[..d.len() - 1].to_vec(),
        b"a-twenty-eight-byte-password!".to_vec(),
        (0..=255u8).collect(),
        vec![b'x'; 255],
        vec![b'x'; 256],
        vec![b'x'; 65535],
        [vec![b'x'; 65534], vec![b'y']].concat(),
    ];
    v.push(vec![b'x'; 65536]);
    v
}
/// all passwords within the encodable limit
pub fn passwords_valid() -> Vec<Bytes> {
    let mut v = passwords_full();
    v.pop();
    v
}
/// core sub-alphabet (quick): default, empty, near-misses, 255/256 pair, one 65535-byte value
pub fn passwords_core() -> Vec<Bytes> {
    let f = passwords_full();
    vec![f[0].clone(), f[1].clone(), f[6].clone(), f[11].clone(), f[12].clone(), f[13].clone()]
}

pub const CID_DEFAULT: &[u8] = b"alice";
pub fn cids_full() -> Vec<Bytes> {
    let mut long1 = vec![7u8; 1000];
    let mut long2 = long1.clone();
    long1[999] = 1;
    long2[999] = 2;
    let mut v = vec![b"alice".to_vec(), vec![], b"a".to_vec(), b"alice2".to_vec(), vec![1u8; 64], long1, long2];
    // near-misses a normalisation slip (trim, case folding, NUL termination, prefix match) would confuse
    v.extend(near_misses(b"alice").into_iter().skip(1));
    v
}
pub fn cids_core() -> Vec<Bytes> {
    let f = cids_full();
    vec![f[0].clone(), f[1].clone(), f[3].clone(), f[5].clone(), f[7].clone(), f[9].clone()]
}
/// `base` followed by its near-misses: trailing space, changed case, trailing NUL, proper prefix, leading space,
/// trailing newline, upper case
pub fn near_misses(base: &[u8]) -> Vec<Bytes> {
    let mut cased = base.to_vec();
    cased[0] = cased[0].to_ascii_uppercase();
    vec![
        base.to_vec(),
        [base, b" "].concat(),
        cased,
        [base, &[0u8]].concat(),
        base[..base.len() - 1].to_vec(),
        [b" ", base].concat(),
        [base, b"\n"].concat(),
        base.to_ascii_uppercase(),
    ]
}

/// Identity values.  Index 0 = absent (default).  `own_pk` is appended by the caller where it is known.
pub fn idvals_full() -> Vec<OBytes> {
    vec![None, Some(vec![]), Some(b"u".to_vec()), Some(b"server.example".to_vec()), Some(vec![b'i'; 255]), Some(vec![b'i'; 256]), Some(vec![b'i'; 65535])]
}
pub fn idvals_core() -> Vec<OBytes> {
    vec![None, Some(vec![]), Some(b"u".to_vec()), Some(vec![b'i'; 255]), Some(vec![b'i'; 256]), Some(vec![b'i'; 65535])]
}
pub fn ctxvals_full() -> Vec<OBytes> {
    vec![None, Some(vec![]), Some(b"c".to_vec()), Some(vec![b'k'; 255]), Some(vec![b'k'; 256]), Some(vec![b'k'; 65535])]
}
pub fn ctxvals_core() -> Vec<OBytes> {
    ctxvals_full()
}

/// all 3-way splits of "abcdef" into (context, client identity, server identity): 28
pub fn splits() -> Vec<(Bytes, Bytes, Bytes)> {
    let s = b"abcdef";
    let mut v = vec![];
    for i in 0..=s.len() {
        for j in i..=s.len() {
            v.push((s[..i].to_vec(), s[i..j].to_vec(), s[j..].to_vec()));
        }
    }
    v
}

/// All index tuples over slots with `sizes[i]` values each that differ from the all-zero (default) tuple in at
/// most `k` slots; ordered by number of deviations, then lexicographically (simplest first).
pub fn deviations(sizes: &[usize], k: usize) -> Vec<Vec<usize>> {
    let n = sizes.len();
    let mut out = vec![vec![0usize; n]];
    fn rec(sizes: &[usize], start: usize, left: usize, cur: &mut Vec<usize>, out: &mut Vec<Vec<usize>>) {
        if left == 0 {
            out.push(cur.clone());
            return;
        }
        for slot in start..sizes.len() {
            for v in 1..sizes[slot] {
                cur[slot] = v;
                rec(sizes, slot + 1, left - 1, cur, out);
                cur[slot] = 0;
            }
        }
    }
    for d in 1..=k.min(n) {
        let mut cur = vec![0usize; n];
        rec(sizes, 0, d, &mut cur, &mut out);
    }
    out
}

/// full cartesian product of index ranges
pub fn product(sizes: &[usize]) -> Vec<Vec<usize>> {
    let mut out = vec![vec![]];
    for &s in sizes {
        let mut next = Vec::with_capacity(out.len() * s);
        for p in &out {
            for i in 0..s {
                let mut q = p.clone();
                q.push(i);
                next.push(q);
            }
        }
        out = next;
    }
    out
}

#[cfg(test)]
mod tests {
    use super::*;
    #[test]
    fn dev_counts() {
        assert_eq!(deviations(&[3, 3], 0).len(), 1);
        assert_eq!(deviations(&[3, 3], 1).len(), 1 + 4);
        assert_eq!(deviations(&[3, 3], 2).len(), 9);
        assert_eq!(splits().len(), 28);
        assert_eq!(product(&[2, 3]).len(), 6);
    }
}
