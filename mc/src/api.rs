//! Monitored, recorded access to the adapter.  Every real API call made by any driver goes through `Api`:
//! it is counted as an LTS transition, wrapped in catch_unwind (a panic is a C12 observation), timed, and -
//! when recording is on - appended to the trace that becomes a replay file.
#![allow(clippy::too_many_arguments)]
use crate::adapter::*;
use crate::refmodel::{spec_by_name, Kind, Spec};
use crate::tape::{Tape, TapeSpec};
use serde::{Deserialize, Serialize};
use std::cell::RefCell;
use std::panic::{catch_unwind, AssertUnwindSafe};
use std::time::Instant;

#[derive(Clone, Debug, Serialize, Deserialize, PartialEq)]
pub enum Arg {
    B(#[serde(with = "hexser")] Vec<u8>),
    O(Option<String>),
    Blob(Blob),
    OBlob(Option<Blob>),
    U(Option<u64>),
    K(Kind),
    C(Codec),
}
#[derive(Clone, Debug, Serialize, Deserialize, PartialEq)]
pub struct CallRec {
    pub op: String,
    pub family: String,
    pub suite: String,
    pub tape: Option<TapeSpec>,
    pub args: Vec<Arg>,
    /// Ok(list of hex outputs) or Err(error)
    pub result: Result<Vec<String>, E>,
    /// side log (remote-key interface calls)
    pub log: Vec<String>,
}

#[derive(Default, Clone, Debug)]
pub struct Counters {
    pub calls: u64,
    pub panics: u64,
    pub slow: u64,
    pub max_ms: u128,
}
thread_local! {
    static REC: RefCell<Option<Vec<CallRec>>> = const { RefCell::new(None) };
    static CNT: RefCell<Counters> = RefCell::new(Counters::default());
    static PANICS: RefCell<Vec<(String, String)>> = const { RefCell::new(vec![]) };
}
/// wall-clock limit for a single API call before it is reported as "too slow" (C12: "fails to terminate")
pub const SLOW_MS: u128 = 20_000;

// ---- hang watchdog: every thread publishes the start time, operation and case of the call it is executing ----
pub struct Slot {
    start_ms: std::sync::atomic::AtomicU64,
    op: std::sync::Mutex<String>,
    case: std::sync::Mutex<String>,
}
static SLOTS: std::sync::Mutex<Vec<std::sync::Arc<Slot>>> = std::sync::Mutex::new(Vec::new());
static T0: std::sync::OnceLock<Instant> = std::sync::OnceLock::new();
thread_local! {
    static MY_SLOT: std::sync::Arc<Slot> = {
        let s = std::sync::Arc::new(Slot { start_ms: std::sync::atomic::AtomicU64::new(0), op: std::sync::Mutex::new(String::new()), case: std::sync::Mutex::new(String::new()) });
        SLOTS.lock().unwrap().push(s.clone());
        s
    };
}
fn now_ms() -> u64 {
    T0.get_or_init(Instant::now).elapsed().as_millis() as u64 + 1
}
/// remember the case the current thread is working on (shown if one of its calls hangs)
pub fn note_case(c: &serde_json::Value) {
    if c.is_null() {
        return;
    }
    MY_SLOT.with(|s| {
        let mut g = s.case.lock().unwrap();
        g.clear();
        // keep it short: huge byte strings are summarised by the drivers already
        let txt = c.to_string();
        g.push_str(&txt[..txt.len().min(2000)]);
    });
}
/// hang limit in ms that a driver may lower for a sweep in which non-termination is the expected failure mode
pub static HANG_LIMIT_OVERRIDE_MS: std::sync::atomic::AtomicU64 = std::sync::atomic::AtomicU64::new(0);
/// (operation, case, seconds) of the longest-running in-flight API call older than `limit_ms`, if any
pub fn hung_call(limit_ms: u64) -> Option<(String, String, u64)> {
    let now = now_ms();
    let slots = SLOTS.lock().unwrap();
    slots
        .iter()
        .filter_map(|s| {
            let st = s.start_ms.load(std::sync::atomic::Ordering::Relaxed);
            if st != 0 && now.saturating_sub(st) > limit_ms {
                Some((s.op.lock().unwrap().clone(), s.case.lock().unwrap().clone(), (now - st) / 1000))
            } else {
                None
            }
        })
        .max_by_key(|x| x.2)
}

pub fn rec_start() {
    REC.with(|r| *r.borrow_mut() = Some(vec![]));
}
pub fn rec_stop() -> Vec<CallRec> {
    REC.with(|r| r.borrow_mut().take()).unwrap_or_default()
}
pub fn rec_len() -> usize {
    REC.with(|r| r.borrow().as_ref().map_or(0, |v| v.len()))
}
pub fn rec_truncate(n: usize) {
    REC.with(|r| {
        if let Some(v) = r.borrow_mut().as_mut() {
            v.truncate(n)
        }
    });
}
pub fn rec_snapshot() -> Vec<CallRec> {
    REC.with(|r| r.borrow().clone()).unwrap_or_default()
}
pub fn recording() -> bool {
    REC.with(|r| r.borrow().is_some())
}
pub fn counters_take() -> Counters {
    CNT.with(|c| std::mem::take(&mut *c.borrow_mut()))
}
/// (op, message) of panics observed on this thread since the last take
pub fn panics_take() -> Vec<(String, String)> {
    PANICS.with(|p| std::mem::take(&mut *p.borrow_mut()))
}

fn ob(x: Ob) -> Arg {
    Arg::O(x.map(hex::encode))
}
fn hx(v: &[&Vec<u8>]) -> Vec<String> {
    v.iter().map(|b| hex::encode(b)).collect()
}

#[derive(Clone, Copy)]
pub struct Api {
    pub s: &'static dyn Suite,
    pub spec: &'static Spec,
}

fn monitored<T>(op: &str, f: impl FnOnce() -> R<T>) -> R<T> {
    let t0 = Instant::now();
    MY_SLOT.with(|s| {
        let mut g = s.op.lock().unwrap();
        if g.as_str() != op {
            g.clear();
            g.push_str(op);
        }
        drop(g);
        s.start_ms.store(now_ms(), std::sync::atomic::Ordering::Relaxed);
    });
    let r = catch_unwind(AssertUnwindSafe(f));
    MY_SLOT.with(|s| s.start_ms.store(0, std::sync::atomic::Ordering::Relaxed));
    let ms = t0.elapsed().as_millis();
    CNT.with(|c| {
        let mut c = c.borrow_mut();
        c.calls += 1;
        if ms > c.max_ms {
            c.max_ms = ms;
        }
        if ms > SLOW_MS {
            c.slow += 1;
        }
    });
    match r {
        Ok(r) => r,
        Err(p) => {
            let msg = p.downcast_ref::<String>().cloned().or_else(|| p.downcast_ref::<&str>().map(|s| s.to_string())).unwrap_or_else(|| "panic".into());
            if msg.starts_with(crate::tape::TAPE_FAULT) {
                // the injected RNG failure propagated out of the call: neither a result nor a library panic
                return Err(E::RngFault);
            }
            CNT.with(|c| c.borrow_mut().panics += 1);
            PANICS.with(|p| p.borrow_mut().push((op.to_string(), msg.clone())));
            Err(E::Panic(msg))
        }
    }
}

impl Api {
    pub fn new(s: &'static dyn Suite) -> Api {
        Api { s, spec: spec_by_name(s.name()) }
    }
    pub fn name(&self) -> &'static str {
        self.s.name()
    }
    fn record(&self, op: &str, tape: Option<TapeSpec>, args: Vec<Arg>, result: Result<Vec<String>, E>, log: Vec<String>) {
        REC.with(|r| {
            if let Some(v) = r.borrow_mut().as_mut() {
                v.push(CallRec { op: op.into(), family: self.s.family().into(), suite: self.s.name().into(), tape, args, result, log });
            }
        });
    }
    fn rec_on(&self) -> bool {
        recording()
    }

    pub fn setup(&self, t: &mut Tape) -> R<Vec<u8>> {
        let ts = t.spec();
        let r = monitored("setup", || self.s.setup(t));
        if self.rec_on() {
            self.record("setup", Some(ts), vec![], r.clone().map(|v| hx(&[&v])), vec![]);
        }
        r
    }
    pub fn setup_with_key(&self, t: &mut Tape, sk: &[u8]) -> R<Vec<u8>> {
        let ts = t.spec();
        let r = monitored("setup_with_key", || self.s.setup_with_key(t, sk));
        if self.rec_on() {
            self.record("setup_with_key", Some(ts), vec![Arg::B(sk.to_vec())], r.clone().map(|v| hx(&[&v])), vec![]);
        }
        r
    }
    pub fn setup_pk(&self, setup: &Blob) -> R<Vec<u8>> {
        let r = monitored("setup_pk", || self.s.setup_pk(setup));
        if self.rec_on() {
            self.record("setup_pk", None, vec![Arg::Blob(setup.clone())], r.clone().map(|v| hx(&[&v])), vec![]);
        }
        r
    }
    pub fn setup_sk(&self, setup: &Blob) -> R<Vec<u8>> {
        let r = monitored("setup_sk", || self.s.setup_sk(setup));
        if self.rec_on() {
            self.record("setup_sk", None, vec![Arg::Blob(setup.clone())], r.clone().map(|v| hx(&[&v])), vec![]);
        }
        r
    }
    pub fn reg_start(&self, t: &mut Tape, pw: &[u8]) -> R<(Vec<u8>, Vec<u8>)> {
        let ts = t.spec();
        let r = monitored("reg_start", || self.s.reg_start(t, pw));
        if self.rec_on() {
            self.record("reg_start", Some(ts), vec![Arg::B(pw.to_vec())], r.clone().map(|(a, b)| hx(&[&a, &b])), vec![]);
        }
        r
    }
    pub fn sreg_start(&self, setup: &Blob, req: &Blob, cid: &[u8]) -> R<Vec<u8>> {
        let r = monitored("sreg_start", || self.s.sreg_start(setup, req, cid));
        if self.rec_on() {
            self.record("sreg_start", None, vec![Arg::Blob(setup.clone()), Arg::Blob(req.clone()), Arg::B(cid.to_vec())], r.clone().map(|v| hx(&[&v])), vec![]);
        }
        r
    }
    pub fn reg_finish(&self, t: &mut Tape, st: &Blob, pw: &[u8], resp: &Blob, idu: Ob, ids: Ob, ksf: Option<u32>) -> R<(Vec<u8>, Vec<u8>, Vec<u8>)> {
        let ts = t.spec();
        let r = monitored("reg_finish", || self.s.reg_finish(t, st, pw, resp, idu, ids, ksf));
        if self.rec_on() {
            self.record(
                "reg_finish",
                Some(ts),
                vec![Arg::Blob(st.clone()), Arg::B(pw.to_vec()), Arg::Blob(resp.clone()), ob(idu), ob(ids), Arg::U(ksf.map(|x| x as u64))],
                r.clone().map(|(a, b, c)| hx(&[&a, &b, &c])),
                vec![],
            );
        }
        r
    }
    pub fn sreg_finish(&self, upload: &Blob) -> R<Vec<u8>> {
        let r = monitored("sreg_finish", || self.s.sreg_finish(upload));
        if self.rec_on() {
            self.record("sreg_finish", None, vec![Arg::Blob(upload.clone())], r.clone().map(|v| hx(&[&v])), vec![]);
        }
        r
    }
    pub fn login_start(&self, t: &mut Tape, pw: &[u8]) -> R<(Vec<u8>, Vec<u8>)> {
        let ts = t.spec();
        let r = monitored("login_start", || self.s.login_start(t, pw));
        if self.rec_on() {
            self.record("login_start", Some(ts), vec![Arg::B(pw.to_vec())], r.clone().map(|(a, b)| hx(&[&a, &b])), vec![]);
        }
        r
    }
    pub fn slogin_start(&self, t: &mut Tape, setup: &Blob, file: Option<&Blob>, req: &Blob, cid: &[u8], ctx: Ob, idu: Ob, ids: Ob) -> R<(Vec<u8>, Vec<u8>)> {
        let ts = t.spec();
        let r = monitored("slogin_start", || self.s.slogin_start(t, setup, file, req, cid, ctx, idu, ids));
        if self.rec_on() {
            self.record(
                "slogin_start",
                Some(ts),
                vec![Arg::Blob(setup.clone()), Arg::OBlob(file.cloned()), Arg::Blob(req.clone()), Arg::B(cid.to_vec()), ob(ctx), ob(idu), ob(ids)],
                r.clone().map(|(a, b)| hx(&[&a, &b])),
                vec![],
            );
        }
        r
    }
    pub fn login_finish(&self, st: &Blob, pw: &[u8], resp: &Blob, ctx: Ob, idu: Ob, ids: Ob, ksf: Option<u32>) -> R<(Vec<u8>, Vec<u8>, Vec<u8>, Vec<u8>)> {
        let r = monitored("login_finish", || self.s.login_finish(st, pw, resp, ctx, idu, ids, ksf));
        if self.rec_on() {
            self.record(
                "login_finish",
                None,
                vec![Arg::Blob(st.clone()), Arg::B(pw.to_vec()), Arg::Blob(resp.clone()), ob(ctx), ob(idu), ob(ids), Arg::U(ksf.map(|x| x as u64))],
                r.clone().map(|(a, b, c, d)| hx(&[&a, &b, &c, &d])),
                vec![],
            );
        }
        r
    }
    pub fn slogin_finish(&self, st: &Blob, fin: &Blob) -> R<Vec<u8>> {
        let r = monitored("slogin_finish", || self.s.slogin_finish(st, fin));
        if self.rec_on() {
            self.record("slogin_finish", None, vec![Arg::Blob(st.clone()), Arg::Blob(fin.clone())], r.clone().map(|v| hx(&[&v])), vec![]);
        }
        r
    }
    pub fn recode(&self, kind: Kind, b: &Blob, to: Codec) -> R<Blob> {
        let r = monitored("recode", || self.s.recode(kind, b, to));
        if self.rec_on() {
            self.record("recode", None, vec![Arg::K(kind), Arg::Blob(b.clone()), Arg::C(to)], r.clone().map(|v| hx(&[&v.bytes])), vec![]);
        }
        r
    }
    /// typed equality (the library's own `==`) of two decodable byte strings
    pub fn same(&self, kind: Kind, a: &Blob, b: &Blob) -> R<bool> {
        let r = monitored("same", || self.s.same(kind, a, b));
        if self.rec_on() {
            self.record("same", None, vec![Arg::K(kind), Arg::Blob(a.clone()), Arg::Blob(b.clone())], r.clone().map(|v| hx(&[&vec![v as u8]])), vec![]);
        }
        r
    }
    /// a sequence of server operations on one long-lived in-memory ServerSetup (see Suite::server_session)
    pub fn server_session(&self, setup: &[u8], files: &[Vec<u8>], ops: &[SrvOp]) -> R<Vec<R<Vec<Vec<u8>>>>> {
        let r = monitored("server_session", || self.s.server_session(setup, files, ops));
        if self.rec_on() {
            let fl: Vec<String> = files.iter().map(hex::encode).collect();
            self.record(
                "server_session",
                None,
                vec![Arg::B(setup.to_vec()), Arg::O(Some(hex::encode(serde_json::to_vec(&fl).unwrap()))), Arg::O(Some(hex::encode(serde_json::to_vec(ops).unwrap())))],
                r.clone().map(|v| v.iter().map(|x| match x { Ok(parts) => parts.iter().map(hex::encode).collect::<Vec<_>>().join("|"), Err(e) => format!("Err({:?})", e) }).collect()),
                vec![],
            );
        }
        r
    }
    /// the whole honest flow with in-memory state and the given reload plan (see Suite::flow_in_memory)
    pub fn flow_in_memory(&self, t: &mut Tape, pw: &[u8], cid: &[u8], ctx: Ob, idu: Ob, ids: Ob, plan: &[Vec<Codec>; 6]) -> Result<FlowOut, (usize, E)> {
        let ts = t.spec();
        let mut out: Option<Result<FlowOut, (usize, E)>> = None;
        let r = monitored("flow_in_memory", || {
            out = Some(self.s.flow_in_memory(t, pw, cid, ctx, idu, ids, plan));
            Ok(())
        });
        let res = match r {
            Err(e) => Err((99, e)),
            Ok(()) => out.unwrap(),
        };
        if self.rec_on() {
            let plan_txt: Vec<String> = plan.iter().map(|c| format!("{:?}", c)).collect();
            self.record(
                "flow_in_memory",
                Some(ts),
                vec![Arg::B(pw.to_vec()), Arg::B(cid.to_vec()), ob(ctx), ob(idu), ob(ids), Arg::O(Some(hex::encode(plan_txt.join(";"))))],
                res.clone().map(|o| hx(&[&o.setup, &o.req, &o.resp, &o.upload, &o.export_reg, &o.file, &o.ke1, &o.ke2, &o.ke3, &o.sk_client, &o.export_login, &o.sk_server, &o.fake_ke2, &o.fake_state])).map_err(|(_, e)| e),
                vec![],
            );
        }
        res
    }
    /// native decode followed by native encode
    pub fn decode(&self, kind: Kind, bytes: &[u8]) -> R<Vec<u8>> {
        self.recode(kind, &Blob::n(bytes), Codec::Native).map(|b| b.bytes)
    }
    fn simple(&self, op: &'static str, args: Vec<Arg>, f: impl FnOnce() -> R<Vec<u8>>) -> R<Vec<u8>> {
        let r = monitored(op, f);
        if self.rec_on() {
            self.record(op, None, args, r.clone().map(|v| hx(&[&v])), vec![]);
        }
        r
    }
    /// serde form of a key wrapper as the implementation writes it (harness-side preparation, not recorded: the
    /// resulting blob is what the recorded decoder calls receive)
    pub fn ke_key_encode(&self, is_pk: bool, key: &[u8], codec: Codec) -> R<Blob> {
        monitored("ke_key_encode", || if is_pk { self.s.ke_pk_encode(key, codec) } else { self.s.ke_sk_encode(key, codec) })
    }
    pub fn ke_raw_pk(&self, sk: &[u8]) -> R<Vec<u8>> {
        self.simple("ke_raw_pk", vec![Arg::B(sk.to_vec())], || self.s.ke_raw_pk(sk))
    }
    pub fn ke_raw_dh(&self, sk: &[u8], pk: &[u8]) -> R<Vec<u8>> {
        self.simple("ke_raw_dh", vec![Arg::B(sk.to_vec()), Arg::B(pk.to_vec())], || self.s.ke_raw_dh(sk, pk))
    }
    pub fn ke_keypair_pk(&self, sk: &[u8]) -> R<Vec<u8>> {
        self.simple("ke_keypair_pk", vec![Arg::B(sk.to_vec())], || self.s.ke_keypair_pk(sk))
    }
    pub fn ke_public_key(&self, sk: &[u8]) -> R<Vec<u8>> {
        self.simple("ke_public_key", vec![Arg::B(sk.to_vec())], || self.s.ke_public_key(sk))
    }
    pub fn ke_dh(&self, sk: &[u8], pk: &[u8]) -> R<Vec<u8>> {
        self.simple("ke_dh", vec![Arg::B(sk.to_vec()), Arg::B(pk.to_vec())], || self.s.ke_dh(sk, pk))
    }
    pub fn ke_sk_recode(&self, sk: &[u8]) -> R<Vec<u8>> {
        self.simple("ke_sk_recode", vec![Arg::B(sk.to_vec())], || self.s.ke_sk_recode(sk))
    }
    pub fn ke_pk_recode(&self, pk: &[u8]) -> R<Vec<u8>> {
        self.simple("ke_pk_recode", vec![Arg::B(pk.to_vec())], || self.s.ke_pk_recode(pk))
    }
    pub fn ke_derive(&self, seed: &[u8]) -> R<Vec<u8>> {
        self.simple("ke_derive", vec![Arg::B(seed.to_vec())], || self.s.ke_derive(seed))
    }
    pub fn ke_sk_serde(&self, b: &Blob) -> R<Vec<u8>> {
        self.simple("ke_sk_serde", vec![Arg::Blob(b.clone())], || self.s.ke_sk_serde(b))
    }
    pub fn ke_pk_serde(&self, b: &Blob) -> R<Vec<u8>> {
        self.simple("ke_pk_serde", vec![Arg::Blob(b.clone())], || self.s.ke_pk_serde(b))
    }
    pub fn ke_random_sk(&self, t: &mut Tape) -> R<Vec<u8>> {
        let ts = t.spec();
        let r = monitored("ke_random_sk", || self.s.ke_random_sk(t));
        if self.rec_on() {
            self.record("ke_random_sk", Some(ts), vec![], r.clone().map(|v| hx(&[&v])), vec![]);
        }
        r
    }

    /// arm (Some(n): the n-th probe-KSF call from now fails) or disarm the probe KSF; clears its call log
    pub fn ksf_arm(&self, n: Option<usize>) {
        ksf_fail_at(n);
        if self.rec_on() {
            self.record("ksf_arm", None, vec![Arg::U(n.map(|x| x as u64))], Ok(vec![]), vec![]);
        }
    }
    /// calls of the probe KSF since the last arm / take: (instance id, input)
    pub fn ksf_log(&self) -> Vec<(u32, Vec<u8>)> {
        ksf_take_log()
    }

    // ---- remote-key operations (identity family only) ----
    fn rs(&self) -> &'static dyn RemoteSuite {
        remote_by_name(self.s.name()).expect("remote suite")
    }
    /// choose what the external key serializes to (recorded, so that replays are faithful)
    pub fn r_style(&self, style: u8) {
        let _ = self.simple("r_style", vec![Arg::U(Some(style as u64))], || {
            crate::adapter::remote_handle_style(style);
            Ok(vec![style])
        });
    }
    pub fn r_handle(&self, sk: &[u8]) -> R<Vec<u8>> {
        self.simple("r_handle", vec![Arg::B(sk.to_vec())], || self.rs().r_handle(sk))
    }
    pub fn r_keypair(&self, sk: &[u8], fail_at: Option<usize>) -> (R<Vec<u8>>, Vec<String>) {
        let (r, log) = self.mon2("r_keypair", || self.rs().r_keypair(sk, fail_at));
        if self.rec_on() {
            self.record("r_keypair", None, vec![Arg::B(sk.to_vec()), Arg::U(fail_at.map(|x| x as u64))], r.clone().map(|v| hx(&[&v])), log.clone());
        }
        (r, log)
    }
    pub fn r_setup_with_key(&self, t: &mut Tape, sk: &[u8], fail_at: Option<usize>) -> (R<Vec<u8>>, Vec<String>) {
        let ts = t.spec();
        let (r, log) = self.mon2("r_setup_with_key", || self.rs().r_setup_with_key(t, sk, fail_at));
        if self.rec_on() {
            self.record("r_setup_with_key", Some(ts), vec![Arg::B(sk.to_vec()), Arg::U(fail_at.map(|x| x as u64))], r.clone().map(|v| hx(&[&v])), log.clone());
        }
        (r, log)
    }
    pub fn r_setup_recode(&self, setup: &[u8], fail_at: Option<usize>) -> (R<Vec<u8>>, Vec<String>) {
        let (r, log) = self.mon2("r_setup_recode", || self.rs().r_setup_recode(setup, fail_at));
        if self.rec_on() {
            self.record("r_setup_recode", None, vec![Arg::B(setup.to_vec()), Arg::U(fail_at.map(|x| x as u64))], r.clone().map(|v| hx(&[&v])), log.clone());
        }
        (r, log)
    }
    pub fn r_sreg_start(&self, setup: &[u8], req: &Blob, cid: &[u8], fail_at: Option<usize>) -> (R<Vec<u8>>, Vec<String>) {
        let (r, log) = self.mon2("r_sreg_start", || self.rs().r_sreg_start(setup, req, cid, fail_at));
        if self.rec_on() {
            self.record(
                "r_sreg_start",
                None,
                vec![Arg::B(setup.to_vec()), Arg::Blob(req.clone()), Arg::B(cid.to_vec()), Arg::U(fail_at.map(|x| x as u64))],
                r.clone().map(|v| hx(&[&v])),
                log.clone(),
            );
        }
        (r, log)
    }
    pub fn r_slogin_start(&self, t: &mut Tape, setup: &[u8], file: Option<&Blob>, req: &Blob, cid: &[u8], ctx: Ob, idu: Ob, ids: Ob, fail_at: Option<usize>) -> (R<(Vec<u8>, Vec<u8>)>, Vec<String>) {
        let ts = t.spec();
        let (r, log) = self.mon2("r_slogin_start", || self.rs().r_slogin_start(t, setup, file, req, cid, ctx, idu, ids, fail_at));
        if self.rec_on() {
            self.record(
                "r_slogin_start",
                Some(ts),
                vec![Arg::B(setup.to_vec()), Arg::OBlob(file.cloned()), Arg::Blob(req.clone()), Arg::B(cid.to_vec()), ob(ctx), ob(idu), ob(ids), Arg::U(fail_at.map(|x| x as u64))],
                r.clone().map(|(a, b)| hx(&[&a, &b])),
                log.clone(),
            );
        }
        (r, log)
    }
    fn mon2<T>(&self, op: &str, f: impl FnOnce() -> (R<T>, Vec<String>)) -> (R<T>, Vec<String>) {
        let mut log = vec![];
        let r = monitored(op, || {
            let (r, l) = f();
            log = l;
            r
        });
        (r, log)
    }
}

// ------------------------------------------------------------------------------------------------
// replay of a recorded trace, without any explorer: plain sequential calls
// ------------------------------------------------------------------------------------------------
fn a_b(a: &Arg) -> Vec<u8> {
    match a {
        Arg::B(b) => b.clone(),
        _ => panic!("replay: expected bytes"),
    }
}
fn a_o(a: &Arg) -> Option<Vec<u8>> {
    match a {
        Arg::O(o) => o.as_ref().map(|h| hex::decode(h).expect("hex")),
        _ => panic!("replay: expected optional bytes"),
    }
}
fn a_blob(a: &Arg) -> Blob {
    match a {
        Arg::Blob(b) => b.clone(),
        _ => panic!("replay: expected blob"),
    }
}
fn a_oblob(a: &Arg) -> Option<Blob> {
    match a {
        Arg::OBlob(b) => b.clone(),
        _ => panic!("replay: expected optional blob"),
    }
}
fn a_u(a: &Arg) -> Option<u64> {
    match a {
        Arg::U(u) => *u,
        _ => panic!("replay: expected number"),
    }
}

/// re-execute one recorded call on the current build; returns (result, side log)
pub fn reexec(c: &CallRec) -> (Result<Vec<String>, E>, Vec<String>) {
    let s = suite_by_name(&c.family, &c.suite).expect("replay: unknown suite");
    let api = Api::new(s);
    let mut t = c.tape.as_ref().map(Tape::from_spec).unwrap_or_else(|| Tape::new("unused"));
    let a = &c.args;
    let h1 = |r: R<Vec<u8>>| r.map(|v| hx(&[&v]));
    let h2 = |r: R<(Vec<u8>, Vec<u8>)>| r.map(|(x, y)| hx(&[&x, &y]));
    let mut log = vec![];
    let r = match c.op.as_str() {
        "setup" => h1(api.setup(&mut t)),
        "setup_with_key" => h1(api.setup_with_key(&mut t, &a_b(&a[0]))),
        "setup_pk" => h1(api.setup_pk(&a_blob(&a[0]))),
        "setup_sk" => h1(api.setup_sk(&a_blob(&a[0]))),
        "reg_start" => h2(api.reg_start(&mut t, &a_b(&a[0]))),
        "sreg_start" => h1(api.sreg_start(&a_blob(&a[0]), &a_blob(&a[1]), &a_b(&a[2]))),
        "reg_finish" => api
            .reg_finish(&mut t, &a_blob(&a[0]), &a_b(&a[1]), &a_blob(&a[2]), a_o(&a[3]).as_deref(), a_o(&a[4]).as_deref(), a_u(&a[5]).map(|x| x as u32))
            .map(|(x, y, z)| hx(&[&x, &y, &z])),
        "sreg_finish" => h1(api.sreg_finish(&a_blob(&a[0]))),
        "login_start" => h2(api.login_start(&mut t, &a_b(&a[0]))),
        "slogin_start" => h2(api.slogin_start(&mut t, &a_blob(&a[0]), a_oblob(&a[1]).as_ref(), &a_blob(&a[2]), &a_b(&a[3]), a_o(&a[4]).as_deref(), a_o(&a[5]).as_deref(), a_o(&a[6]).as_deref())),
        "login_finish" => api
            .login_finish(&a_blob(&a[0]), &a_b(&a[1]), &a_blob(&a[2]), a_o(&a[3]).as_deref(), a_o(&a[4]).as_deref(), a_o(&a[5]).as_deref(), a_u(&a[6]).map(|x| x as u32))
            .map(|(w, x, y, z)| hx(&[&w, &x, &y, &z])),
        "slogin_finish" => h1(api.slogin_finish(&a_blob(&a[0]), &a_blob(&a[1]))),
        "recode" => {
            let (k, to) = match (&a[0], &a[2]) {
                (Arg::K(k), Arg::C(c)) => (*k, *c),
                _ => panic!("replay: recode args"),
            };
            api.recode(k, &a_blob(&a[1]), to).map(|b| hx(&[&b.bytes]))
        }
        "same" => {
            let k = match &a[0] {
                Arg::K(k) => *k,
                _ => panic!("replay: same args"),
            };
            api.same(k, &a_blob(&a[1]), &a_blob(&a[2])).map(|v| hx(&[&vec![v as u8]]))
        }
        "ke_raw_pk" => h1(api.ke_raw_pk(&a_b(&a[0]))),
        "ke_raw_dh" => h1(api.ke_raw_dh(&a_b(&a[0]), &a_b(&a[1]))),
        "ke_keypair_pk" => h1(api.ke_keypair_pk(&a_b(&a[0]))),
        "ke_public_key" => h1(api.ke_public_key(&a_b(&a[0]))),
        "ke_dh" => h1(api.ke_dh(&a_b(&a[0]), &a_b(&a[1]))),
        "ke_sk_recode" => h1(api.ke_sk_recode(&a_b(&a[0]))),
        "ke_pk_recode" => h1(api.ke_pk_recode(&a_b(&a[0]))),
        "ke_derive" => h1(api.ke_derive(&a_b(&a[0]))),
        "ke_sk_serde" => h1(api.ke_sk_serde(&a_blob(&a[0]))),
        "ke_pk_serde" => h1(api.ke_pk_serde(&a_blob(&a[0]))),
        "ke_random_sk" => h1(api.ke_random_sk(&mut t)),
        "r_style" => {
            let st = a_u(&a[0]).unwrap_or(0) as u8;
            api.r_style(st);
            h1(Ok(vec![st]))
        }
        "r_handle" => h1(api.r_handle(&a_b(&a[0]))),
        "r_keypair" => {
            let (r, l) = api.r_keypair(&a_b(&a[0]), a_u(&a[1]).map(|x| x as usize));
            log = l;
            h1(r)
        }
        "r_setup_with_key" => {
            let (r, l) = api.r_setup_with_key(&mut t, &a_b(&a[0]), a_u(&a[1]).map(|x| x as usize));
            log = l;
            h1(r)
        }
        "r_setup_recode" => {
            let (r, l) = api.r_setup_recode(&a_b(&a[0]), a_u(&a[1]).map(|x| x as usize));
            log = l;
            h1(r)
        }
        "r_sreg_start" => {
            let (r, l) = api.r_sreg_start(&a_b(&a[0]), &a_blob(&a[1]), &a_b(&a[2]), a_u(&a[3]).map(|x| x as usize));
            log = l;
            h1(r)
        }
        "r_slogin_start" => {
            let (r, l) = api.r_slogin_start(
                &mut t,
                &a_b(&a[0]),
                a_oblob(&a[1]).as_ref(),
                &a_blob(&a[2]),
                &a_b(&a[3]),
                a_o(&a[4]).as_deref(),
                a_o(&a[5]).as_deref(),
                a_o(&a[6]).as_deref(),
                a_u(&a[7]).map(|x| x as usize),
            );
            log = l;
            h2(r)
        }
        "server_session" => {
            let fl: Vec<String> = serde_json::from_slice(&a_o(&a[1]).unwrap_or_default()).unwrap_or_default();
            let files: Vec<Vec<u8>> = fl.iter().map(|h| hex::decode(h).unwrap_or_default()).collect();
            let ops: Vec<SrvOp> = serde_json::from_slice(&a_o(&a[2]).unwrap_or_default()).unwrap_or_default();
            api.server_session(&a_b(&a[0]), &files, &ops)
                .map(|v| v.iter().map(|x| match x { Ok(parts) => parts.iter().map(hex::encode).collect::<Vec<_>>().join("|"), Err(e) => format!("Err({:?})", e) }).collect())
        }
        "flow_in_memory" => {
            let plan_txt = String::from_utf8(a_o(&a[5]).unwrap_or_default()).unwrap_or_default();
            let mut plan: [Vec<Codec>; 6] = Default::default();
            for (i, part) in plan_txt.split(';').enumerate().take(6) {
                for c in ["Native", "Bincode", "Json"] {
                    // order of appearance within the chain text
                    let _ = c;
                }
                let mut chain = vec![];
                for tok in part.trim_matches(|ch| ch == '[' || ch == ']').split(',') {
                    match tok.trim() {
                        "Native" => chain.push(Codec::Native),
                        "Bincode" => chain.push(Codec::Bincode),
                        "Json" => chain.push(Codec::Json),
                        "Clone" => chain.push(Codec::Clone),
                        _ => {}
                    }
                }
                plan[i] = chain;
            }
            api.flow_in_memory(&mut t, &a_b(&a[0]), &a_b(&a[1]), a_o(&a[2]).as_deref(), a_o(&a[3]).as_deref(), a_o(&a[4]).as_deref(), &plan)
                .map(|o| hx(&[&o.setup, &o.req, &o.resp, &o.upload, &o.export_reg, &o.file, &o.ke1, &o.ke2, &o.ke3, &o.sk_client, &o.export_login, &o.sk_server, &o.fake_ke2, &o.fake_state]))
                .map_err(|(_, e)| e)
        }
        "ksf_arm" => {
            api.ksf_arm(a_u(&a[0]).map(|x| x as usize));
            Ok(vec![])
        }
        other => panic!("replay: unknown op {other}"),
    };
    (r, log)
}
