//! Group-level ground truth and menus of special encodings (used by C10, C11, C19).  Ground truth comes
//! from the curve crates (trusted base), never from opaque-ke.
use crate::refmodel::{Ke, Spec, FT};

#[derive(Clone, Copy, Debug, PartialEq, Eq, Hash)]
pub enum G {
    Ristretto,
    P256,
    P384,
    P521,
    X25519,
}
impl G {
    pub fn name(self) -> &'static str {
        match self {
            G::Ristretto => "ristretto255",
            G::P256 => "P256",
            G::P384 => "P384",
            G::P521 => "P521",
            G::X25519 => "curve25519",
        }
    }
    pub fn from_name(n: &str) -> G {
        match n {
            "ristretto255" => G::Ristretto,
            "P256" => G::P256,
            "P384" => G::P384,
            "P521" => G::P521,
            "curve25519" => G::X25519,
            _ => panic!("group {n}"),
        }
    }
    pub fn elem_len(self) -> usize {
        match self {
            G::Ristretto | G::X25519 => 32,
            G::P256 => 33,
            G::P384 => 49,
            G::P521 => 67,
        }
    }
    pub fn scalar_len(self) -> usize {
        match self {
            G::Ristretto | G::X25519 | G::P256 => 32,
            G::P384 => 48,
            G::P521 => 66,
        }
    }
    pub fn big_endian(self) -> bool {
        matches!(self, G::P256 | G::P384 | G::P521)
    }
    /// field prime p, in the byte order of the group's encodings
    pub fn p(self) -> Vec<u8> {
        match self {
            G::P256 => hex::decode("ffffffff00000001000000000000000000000000ffffffffffffffffffffffff").unwrap(),
            G::P384 => hex::decode("fffffffffffffffffffffffffffffffffffffffffffffffffffffffffffffffeffffffff0000000000000000ffffffff").unwrap(),
            G::P521 => {
                let mut v = vec![0xffu8; 66];
                v[0] = 0x01;
                v
            }
            G::Ristretto | G::X25519 => {
                let mut v = vec![0xffu8; 32];
                v[0] = 0xed;
                v[31] = 0x7f;
                v
            }
        }
    }
    /// group order n (for X25519: the order l of the prime-order subgroup), in the group's byte order
    pub fn n(self) -> Vec<u8> {
        match self {
            G::P256 => nist_order::<p256::Scalar>(),
            G::P384 => nist_order::<p384::Scalar>(),
            G::P521 => nist_order::<p521::Scalar>(),
            G::Ristretto | G::X25519 => hex::decode("edd3f55c1a631258d69cf7a2def9de1400000000000000000000000000000010").unwrap(),
        }
    }
    /// ground truth: is `b` the canonical encoding of a valid non-identity group element (a point of the
    /// prime-order group; for X25519: a u-coordinate that does not force an all-zero shared secret)
    pub fn elem_valid(self, b: &[u8]) -> bool {
        if b.len() != self.elem_len() {
            return false;
        }
        match self {
            G::Ristretto => match curve25519_dalek::ristretto::CompressedRistretto::from_slice(b).ok().and_then(|c| c.decompress()) {
                Some(p) => {
                    use curve25519_dalek::traits::Identity;
                    p != curve25519_dalek::ristretto::RistrettoPoint::identity()
                }
                None => false,
            },
            G::X25519 => !x25519_small_order(b),
            G::P256 => nist_valid::<p256::NistP256>(b),
            G::P384 => nist_valid::<p384::NistP384>(b),
            G::P521 => nist_valid::<p521::NistP521>(b),
        }
    }
    /// ground truth: canonical non-zero scalar (for X25519: a clamped non-zero secret)
    pub fn scalar_valid(self, b: &[u8]) -> bool {
        if b.len() != self.scalar_len() || b.iter().all(|x| *x == 0) {
            return false;
        }
        match self {
            G::X25519 => b[0] & 7 == 0 && b[31] & 0x80 == 0 && b[31] & 0x40 != 0,
            G::Ristretto => lt_le(b, &self.n()),
            _ => b < &self.n()[..],
        }
    }
}

fn nist_valid<C>(b: &[u8]) -> bool
where
    C: elliptic_curve::CurveArithmetic,
    elliptic_curve::FieldBytesSize<C>: elliptic_curve::sec1::ModulusSize,
    elliptic_curve::AffinePoint<C>: elliptic_curve::sec1::FromEncodedPoint<C> + elliptic_curve::sec1::ToEncodedPoint<C>,
{
    use elliptic_curve::sec1::{EncodedPoint, FromEncodedPoint};
    if b[0] != 2 && b[0] != 3 {
        return false;
    }
    match EncodedPoint::<C>::from_bytes(b) {
        Ok(ep) => Option::<elliptic_curve::AffinePoint<C>>::from(elliptic_curve::AffinePoint::<C>::from_encoded_point(&ep)).is_some(),
        Err(_) => false,
    }
}

/// group order from the curve crate: (-1 mod n) + 1, big-endian
fn nist_order<S: elliptic_curve::ff::PrimeField>() -> Vec<u8> {
    let m1 = (-S::ONE).to_repr();
    add_bytes(m1.as_ref(), &small_int(1, m1.as_ref().len(), true), true).expect("order fits")
}

/// little-endian a < b
fn lt_le(a: &[u8], b: &[u8]) -> bool {
    for i in (0..a.len()).rev() {
        if a[i] != b[i] {
            return a[i] < b[i];
        }
    }
    false
}

/// X25519 with two different clamped scalars gives all-zero output  <=>  small-order input
pub fn x25519_small_order(u: &[u8]) -> bool {
    let u: [u8; 32] = match u.try_into() {
        Ok(u) => u,
        Err(_) => return false,
    };
    let p = curve25519_dalek::montgomery::MontgomeryPoint(u);
    let mut k1 = [0x11u8; 32];
    let mut k2 = [0x77u8; 32];
    k1[0] = 0x58;
    k2[0] = 0xa8;
    p.mul_clamped(k1).to_bytes() == [0u8; 32] && p.mul_clamped(k2).to_bytes() == [0u8; 32]
}

/// a + b over byte strings of equal length in the given byte order; None on overflow of the length
pub fn add_bytes(a: &[u8], b: &[u8], big_endian: bool) -> Option<Vec<u8>> {
    assert_eq!(a.len(), b.len());
    let n = a.len();
    let mut out = vec![0u8; n];
    let mut carry = 0u16;
    for i in 0..n {
        let j = if big_endian { n - 1 - i } else { i };
        let s = a[j] as u16 + b[j] as u16 + carry;
        out[j] = (s & 0xff) as u8;
        carry = s >> 8;
    }
    if carry != 0 {
        None
    } else {
        Some(out)
    }
}
pub fn small_int(v: u64, len: usize, big_endian: bool) -> Vec<u8> {
    let mut out = vec![0u8; len];
    let le = v.to_le_bytes();
    for i in 0..8.min(len) {
        let j = if big_endian { len - 1 - i } else { i };
        out[j] = le[i];
    }
    out
}
/// a - 1
pub fn dec_bytes(a: &[u8], big_endian: bool) -> Vec<u8> {
    let n = a.len();
    let mut out = a.to_vec();
    for i in 0..n {
        let j = if big_endian { n - 1 - i } else { i };
        if out[j] > 0 {
            out[j] -= 1;
            break;
        }
        out[j] = 0xff;
    }
    out
}

impl G {
    /// valid element encodings with the smallest coordinates (so that "+p" aliases fit, where they can)
    pub fn small_valid_elems(self, count: usize) -> Vec<Vec<u8>> {
        let mut out = vec![];
        match self {
            G::P256 | G::P384 | G::P521 => {
                let fl = self.scalar_len();
                for x in 1..2000u64 {
                    let mut e = vec![2u8];
                    e.extend(small_int(x, fl, true));
                    if self.elem_valid(&e) {
                        out.push(e);
                        if out.len() >= count {
                            break;
                        }
                    }
                }
            }
            G::Ristretto => {
                for s in (2..4000u64).step_by(2) {
                    let e = small_int(s, 32, false);
                    if self.elem_valid(&e) {
                        out.push(e);
                        if out.len() >= count {
                            break;
                        }
                    }
                }
            }
            G::X25519 => {
                for u in [9u64, 2, 3, 4, 5, 6, 7, 8, 10] {
                    let e = small_int(u, 32, false);
                    if self.elem_valid(&e) {
                        out.push(e);
                        if out.len() >= count {
                            break;
                        }
                    }
                }
            }
        }
        out
    }
    /// alias candidates of a valid element encoding: byte strings of the same length that denote, or could be
    /// taken to denote, the same element.  (name, bytes)
    pub fn elem_aliases(self, e: &[u8]) -> Vec<(String, Vec<u8>)> {
        let mut out = vec![];
        match self {
            G::P256 | G::P384 | G::P521 => {
                let x = &e[1..];
                if let Some(xp) = add_bytes(x, &self.p(), true) {
                    let mut a = vec![e[0]];
                    a.extend(xp);
                    out.push(("x+p".to_string(), a));
                }
                for tag in [0x05u8, 0x04, 0x06, 0x07, 0x00] {
                    let mut a = e.to_vec();
                    a[0] = tag;
                    out.push((format!("tag{:02x}", tag), a));
                }
            }
            G::Ristretto | G::X25519 => {
                if let Some(sp) = add_bytes(e, &self.p(), false) {
                    if sp[31] & 0x80 == 0 || self == G::X25519 {
                        out.push(("s+p".to_string(), sp));
                    }
                }
                let mut a = e.to_vec();
                a[31] |= 0x80;
                out.push(("bit255".to_string(), a));
                if self == G::Ristretto {
                    // negative representative: p - s
                    let p = self.p();
                    let mut neg = vec![0u8; 32];
                    let mut borrow = 0i16;
                    for i in 0..32 {
                        let d = p[i] as i16 - e[i] as i16 - borrow;
                        if d < 0 {
                            neg[i] = (d + 256) as u8;
                            borrow = 1;
                        } else {
                            neg[i] = d as u8;
                            borrow = 0;
                        }
                    }
                    out.push(("p-s".to_string(), neg));
                }
            }
        }
        out.into_iter().filter(|(_, a)| a != e).collect()
    }
    /// special valid scalars: 1 and n-1 (X25519: clamped extremes)
    pub fn special_scalars(self) -> Vec<(String, Vec<u8>)> {
        match self {
            G::X25519 => {
                let mut lo = vec![0u8; 32];
                lo[31] = 0x40;
                let mut hi = vec![0xffu8; 32];
                hi[0] = 0xf8;
                hi[31] = 0x7f;
                vec![("2^254".into(), lo), ("2^255-8".into(), hi)]
            }
            _ => {
                let be = self.big_endian();
                vec![("1".into(), small_int(1, self.scalar_len(), be)), ("2".into(), small_int(2, self.scalar_len(), be)), ("n-1".into(), dec_bytes(&self.n(), be)), ("n-2".into(), dec_bytes(&dec_bytes(&self.n(), be), be))]
            }
        }
    }
    /// alias candidates of a valid scalar
    pub fn scalar_aliases(self, s: &[u8]) -> Vec<(String, Vec<u8>)> {
        let mut out = vec![];
        match self {
            G::X25519 => {
                for (n, m0, m31) in [("unclamped-low", 1u8, 0u8), ("unclamped-bit255", 0, 0x80), ("unclamped-bit254", 0, 0x40)] {
                    let mut a = s.to_vec();
                    a[0] ^= m0;
                    a[31] ^= m31;
                    out.push((n.to_string(), a));
                }
            }
            _ => {
                if let Some(a) = add_bytes(s, &self.n(), self.big_endian()) {
                    out.push(("s+n".to_string(), a));
                }
            }
        }
        out
    }
}

impl Spec {
    pub fn oprf_g(&self) -> G {
        G::from_name(self.oprf.g.name())
    }
    pub fn ke_g(&self) -> G {
        match self.ke {
            Ke::Prime(g) => G::from_name(g.name()),
            Ke::X25519 => G::X25519,
        }
    }
    /// the group a field of this type lives in, if it is a group-element or scalar field
    pub fn group_of(&self, ty: FT) -> Option<G> {
        match ty {
            FT::OprfElem | FT::OprfScalar => Some(self.oprf_g()),
            FT::KePk | FT::KeSk => Some(self.ke_g()),
            _ => None,
        }
    }
}

#[cfg(test)]
mod tests {
    use super::*;
    #[test]
    fn constants_consistent() {
        for g in [G::P256, G::P384, G::P521, G::Ristretto, G::X25519] {
            assert_eq!(g.p().len(), g.scalar_len().max(if g.big_endian() { g.scalar_len() } else { 32 }));
            assert_eq!(g.n().len(), g.scalar_len());
            assert!(!g.small_valid_elems(2).is_empty(), "{:?}", g);
            for (_, s) in g.special_scalars() {
                assert!(g.scalar_valid(&s), "{:?}", g);
            }
            assert!(!g.scalar_valid(&g.n()) || g == G::X25519);
        }
        assert!(x25519_small_order(&small_int(1, 32, false)));
        assert!(x25519_small_order(&small_int(0, 32, false)));
        assert!(!x25519_small_order(&small_int(9, 32, false)));
    }
}

// ------------------------------------------------------------------------------------------------
// menus of INVALID encodings (C11).  Every entry is checked against the ground truth before use.
// ------------------------------------------------------------------------------------------------
impl G {
    /// (name, bytes) of encodings that are not valid non-identity group elements.  `valid` is an honest
    /// element of this group (used for tag / bit variants).
    pub fn invalid_elems(self, valid: &[u8]) -> Vec<(String, Vec<u8>)> {
        let mut out: Vec<(String, Vec<u8>)> = vec![];
        let l = self.elem_len();
        match self {
            G::P256 | G::P384 | G::P521 => {
                let fl = self.scalar_len();
                out.push(("identity-00".into(), vec![0u8; l]));
                // smallest off-curve x, both parities
                for x in 1..2000u64 {
                    let mut e = vec![2u8];
                    e.extend(small_int(x, fl, true));
                    if !self.elem_valid(&e) {
                        out.push((format!("offcurve-x{}-02", x), e.clone()));
                        e[0] = 3;
                        out.push((format!("offcurve-x{}-03", x), e.clone()));
                        e[0] = 5;
                        out.push((format!("offcurve-x{}-05", x), e));
                        break;
                    }
                }
                let mut e = vec![2u8];
                e.extend(self.p());
                out.push(("x=p".into(), e));
                let mut e = vec![3u8];
                e.extend(add_bytes(&self.p(), &small_int(1, fl, true), true).unwrap_or_else(|| vec![0xff; fl]));
                out.push(("x=p+1".into(), e));
                let mut e = vec![2u8];
                e.extend(vec![0xffu8; fl]);
                out.push(("x=ff..ff".into(), e));
                // valid x + p where it fits (a non-reduced coordinate)
                if let Some(xp) = add_bytes(&valid[1..], &self.p(), true) {
                    let mut e = vec![valid[0]];
                    e.extend(xp);
                    out.push(("valid-x+p".into(), e));
                }
                for tag in [0x01u8, 0x04, 0x06, 0x07, 0xff] {
                    let mut e = valid.to_vec();
                    e[0] = tag;
                    out.push((format!("tag{:02x}-valid-x", tag), e));
                }
            }
            G::Ristretto => {
                out.push(("identity-zeros".into(), vec![0u8; 32]));
                out.push(("s=p (non-canonical zero)".into(), self.p()));
                out.push(("s=1 (negative)".into(), small_int(1, 32, false)));
                for s in (2..4000u64).step_by(2) {
                    let e = small_int(s, 32, false);
                    if !self.elem_valid(&e) {
                        out.push((format!("non-square s={}", s), e));
                        break;
                    }
                }
                for v in self.small_valid_elems(1) {
                    if let Some(sp) = add_bytes(&v, &self.p(), false) {
                        if sp[31] & 0x80 == 0 {
                            out.push(("valid-s+p".into(), sp));
                        }
                    }
                }
                let mut e = valid.to_vec();
                e[31] |= 0x80;
                out.push(("valid|bit255".into(), e));
                let mut e = valid.to_vec();
                e[0] ^= 1;
                out.push(("valid^1 (negative)".into(), e));
                out.push(("ff..ff".into(), vec![0xffu8; 32]));
            }
            G::X25519 => {
                let p = self.p();
                let so: Vec<(&str, Vec<u8>)> = vec![
                    ("u=0", vec![0u8; 32]),
                    ("u=1", small_int(1, 32, false)),
                    ("u=order8-a", hex::decode("e0eb7a7c3b41b8ae1656e3faf19fc46ada098deb9c32b1fd866205165f49b800").unwrap()),
                    ("u=order8-b", hex::decode("5f9c95bca3508c24b1d0b1559c83ef5b04445cc4581c8e86d8224eddd09f1157").unwrap()),
                    ("u=p-1", dec_bytes(&p, false)),
                    ("u=p", p.clone()),
                    ("u=p+1", add_bytes(&p, &small_int(1, 32, false), false).unwrap()),
                ];
                for (n, b) in so {
                    let mut hi = b.clone();
                    hi[31] |= 0x80;
                    out.push((n.to_string(), b));
                    out.push((format!("{}|bit255", n), hi));
                }
            }
        }
        out
    }
    pub fn invalid_scalars(self, valid: &[u8]) -> Vec<(String, Vec<u8>)> {
        let l = self.scalar_len();
        let be = self.big_endian();
        match self {
            G::X25519 => {
                let mut v = vec![("zero".to_string(), vec![0u8; 32])];
                for (n, m0, m31) in [("bit0-set", 1u8, 0u8), ("bit1-set", 2, 0), ("bit2-set", 4, 0), ("bit255-set", 0, 0x80), ("bit254-clear", 0, 0x40)] {
                    let mut a = valid.to_vec();
                    a[0] ^= m0;
                    a[31] ^= m31;
                    v.push((format!("unclamped-{}", n), a));
                }
                v.push(("ff..ff".into(), vec![0xffu8; 32]));
                v
            }
            _ => {
                let n = self.n();
                let mut v = vec![("zero".to_string(), vec![0u8; l]), ("n".to_string(), n.clone())];
                if let Some(n1) = add_bytes(&n, &small_int(1, l, be), be) {
                    v.push(("n+1".into(), n1));
                }
                if let Some(vn) = add_bytes(valid, &n, be) {
                    v.push(("valid+n".into(), vn));
                }
                v.push(("ff..ff".into(), vec![0xffu8; l]));
                v
            }
        }
    }
}
