//! Explicit-state explorer (DESIGN.md 2.4): breadth-first, deterministic action order, dedup on a canonical
//! 128-bit state key, parent pointers for minimal counterexamples, collects every violation.  The transition
//! function (`Lts::step`) performs real opaque-ke API calls.  The same `Lts` value can be handed to stateright's
//! BFS checker as an independent count of unique states and depth.
use crate::api;
use crate::fw::Cx;
use serde_json::{json, Value};
use std::collections::{HashMap, VecDeque};

pub trait Lts: Sync {
    type S: Clone + Send + Sync;
    type A: Clone + std::fmt::Debug + Send + Sync + PartialEq;
    fn init(&self, cx: &mut Cx) -> Vec<Self::S>;
    /// canonical key: two states with equal keys have identical futures
    fn key(&self, s: &Self::S) -> u128;
    fn actions(&self, s: &Self::S) -> Vec<Self::A>;
    /// the transition: real API calls.  None = the action is not executable (reported through cx if that is wrong)
    fn step(&self, s: &Self::S, a: &Self::A, cx: &mut Cx) -> Option<Self::S>;
    /// invariant evaluated in every newly discovered state (may itself call the API, e.g. a routing product)
    fn check(&self, s: &Self::S, cx: &mut Cx);
    fn describe(&self, a: &Self::A) -> Value {
        json!(format!("{:?}", a))
    }
}

#[derive(Default, Debug, Clone)]
pub struct BfsStats {
    pub states: u64,
    pub edges: u64,
    pub max_depth: u64,
    pub terminals: u64,
    pub capped: bool,
}

/// Breadth-first exploration.  `max_states` is a cap (reported, never silent).
pub fn bfs<L: Lts>(l: &L, cx: &mut Cx, max_states: usize) -> BfsStats {
    let mut st = BfsStats::default();
    // node store: (parent index, action index in parent's action list, action)
    let mut parent: Vec<Option<(usize, L::A)>> = vec![];
    let mut root_of: Vec<usize> = vec![];
    let mut seen: HashMap<u128, usize> = HashMap::new();
    let mut queue: VecDeque<(usize, L::S, u64)> = VecDeque::new();
    let inits = l.init(cx);
    cx.context_done();
    for (i, s) in inits.iter().enumerate() {
        let k = l.key(s);
        if seen.contains_key(&k) {
            continue;
        }
        let id = parent.len();
        parent.push(None);
        root_of.push(i);
        seen.insert(k, id);
        cx.state(&k);
        st.states += 1;
        cx.begin_case(json!({"init": i, "path": []}));
        l.check(s, cx);
        queue.push_back((id, s.clone(), 0));
    }
    let path_of = |parent: &Vec<Option<(usize, L::A)>>, mut id: usize| -> Vec<L::A> {
        let mut p = vec![];
        while let Some((pid, a)) = &parent[id] {
            p.push(a.clone());
            id = *pid;
        }
        p.reverse();
        p
    };
    while let Some((id, s, depth)) = queue.pop_front() {
        let acts = l.actions(&s);
        if acts.is_empty() {
            st.terminals += 1;
            cx.path();
            continue;
        }
        for a in acts {
            st.edges += 1;
            cx.edges += 1;
            let mut path = path_of(&parent, id);
            path.push(a.clone());
            let pj: Vec<Value> = path.iter().map(|x| l.describe(x)).collect();
            cx.begin_case(json!({"init": root_of[id], "path": pj}));
            let next = if api::recording() {
                // confirmation pass: re-execute the whole path from the initial state so that the recorded trace
                // of any violation is the complete, minimal operation list
                let mut cur = Some(inits[root_of[id]].clone());
                for x in &path {
                    cur = match cur {
                        Some(c) => l.step(&c, x, cx),
                        None => None,
                    };
                }
                cur
            } else {
                l.step(&s, &a, cx)
            };
            let ns = match next {
                Some(n) => n,
                None => continue,
            };
            let k = l.key(&ns);
            if seen.contains_key(&k) {
                continue;
            }
            if seen.len() >= max_states {
                if !st.capped {
                    st.capped = true;
                    cx.caps.push(format!("state cap {} reached at depth {}; everything below that depth was explored completely", max_states, depth + 1));
                }
                continue;
            }
            let nid = parent.len();
            parent.push(Some((id, a.clone())));
            root_of.push(root_of[id]);
            seen.insert(k, nid);
            cx.state(&k);
            st.states += 1;
            st.max_depth = st.max_depth.max(depth + 1);
            cx.depth(depth + 1);
            l.check(&ns, cx);
            queue.push_back((nid, ns, depth + 1));
        }
    }
    st
}

// ------------------------------------------------------------------------------------------------
// stateright cross-check: the same Lts explored by stateright's BFS; unique states and depth must agree
// ------------------------------------------------------------------------------------------------
pub struct Sr<L: Lts> {
    pub l: L,
    pub inits: Vec<L::S>,
}
#[derive(Clone)]
pub struct SrState<S: Clone> {
    key: u128,
    s: S,
}
impl<S: Clone> std::fmt::Debug for SrState<S> {
    fn fmt(&self, f: &mut std::fmt::Formatter<'_>) -> std::fmt::Result {
        write!(f, "{:032x}", self.key)
    }
}
impl<S: Clone> PartialEq for SrState<S> {
    fn eq(&self, o: &Self) -> bool {
        self.key == o.key
    }
}
impl<S: Clone> Eq for SrState<S> {}
impl<S: Clone> std::hash::Hash for SrState<S> {
    fn hash<H: std::hash::Hasher>(&self, h: &mut H) {
        self.key.hash(h)
    }
}
impl<L: Lts + Send + 'static> stateright::Model for Sr<L>
where
    L::S: 'static,
    L::A: 'static,
{
    type State = SrState<L::S>;
    type Action = L::A;
    fn init_states(&self) -> Vec<Self::State> {
        self.inits.iter().map(|s| SrState { key: self.l.key(s), s: s.clone() }).collect()
    }
    fn actions(&self, state: &Self::State, actions: &mut Vec<Self::Action>) {
        actions.extend(self.l.actions(&state.s));
    }
    fn next_state(&self, last: &Self::State, action: Self::Action) -> Option<Self::State> {
        let mut cx = Cx::new("crosscheck", "sr");
        self.l.step(&last.s, &action, &mut cx).map(|s| SrState { key: self.l.key(&s), s })
    }
    fn properties(&self) -> Vec<stateright::Property<Self>> {
        vec![stateright::Property::always("true", |_, _| true)]
    }
}

/// (unique states, max depth) as counted by stateright 0.31's BFS checker on the same model
pub fn stateright_count<L: Lts + Send + 'static>(l: L, threads: usize) -> (u64, u64)
where
    L::S: 'static,
    L::A: 'static,
{
    use stateright::{Checker, Model};
    let mut cx = Cx::new("crosscheck", "sr");
    let inits = l.init(&mut cx);
    let m = Sr { l, inits };
    let c = m.checker().threads(threads).spawn_bfs().join();
    // stateright's depth counts states on the path (root = 1)
    (c.unique_state_count() as u64, c.max_depth().saturating_sub(1) as u64)
}
