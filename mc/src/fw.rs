//! Framework: work-item runner, statistics, violations (confirmation by re-execution with recording),
//! known findings, evidence and replay files.  DESIGN.md sections 2.4, 2.6, 2.7, Appendix B.
use crate::api::{self, CallRec};
use rayon::prelude::*;
use serde::{Deserialize, Serialize};
use serde_json::{json, Value};
use sha2::{Digest, Sha256};
use std::collections::{BTreeMap, HashSet};
use std::hash::{Hash, Hasher};
use std::time::Instant;

#[derive(Clone, Copy, Debug, PartialEq, Eq)]
pub enum Tier {
    Quick,
    Thorough,
}
impl Tier {
    pub fn name(self) -> &'static str {
        match self {
            Tier::Quick => "quick",
            Tier::Thorough => "thorough",
        }
    }
    pub fn thorough(self) -> bool {
        self == Tier::Thorough
    }
}

#[derive(Clone, Debug, Serialize, Deserialize)]
pub struct Violation {
    pub property: String,
    /// class key: identifies the call site / input class that fails (matched against known_findings.json)
    pub key: String,
    pub what: String,
    pub suite: String,
    pub case: Value,
    pub trace: Vec<CallRec>,
}

/// 128-bit hash of anything hashable (two independent 64-bit SipHash passes)
pub fn h128<T: Hash + ?Sized>(x: &T) -> u128 {
    let mut a = std::collections::hash_map::DefaultHasher::new();
    0xA5u8.hash(&mut a);
    x.hash(&mut a);
    let mut b = std::collections::hash_map::DefaultHasher::new();
    0x5Au8.hash(&mut b);
    x.hash(&mut b);
    ((a.finish() as u128) << 64) | b.finish() as u128
}

/// Per-work-item context: statistics and violations of one exploration unit.
pub struct Cx {
    pub property: &'static str,
    pub suite: String,
    states: HashSet<u128>,
    pub n_states_extra: u64,
    pub edges: u64,
    pub paths: u64,
    pub max_depth: u64,
    pub outcomes: BTreeMap<String, u64>,
    /// first violation of each class key (full, with trace); further instances are only counted
    pub violations: Vec<Violation>,
    pub vio_counts: BTreeMap<String, u64>,
    pub samples: Vec<Value>,
    pub extra: BTreeMap<String, u64>,
    pub caps: Vec<String>,
    pub undetermined: u64,
    ctx_len: usize,
    case: Value,
    pub max_samples: usize,
}

impl Cx {
    pub fn new(property: &'static str, suite: &str) -> Cx {
        Cx {
            property,
            suite: suite.to_string(),
            states: HashSet::new(),
            n_states_extra: 0,
            edges: 0,
            paths: 0,
            max_depth: 0,
            outcomes: BTreeMap::new(),
            violations: vec![],
            vio_counts: BTreeMap::new(),
            samples: vec![],
            extra: BTreeMap::new(),
            caps: vec![],
            undetermined: 0,
            ctx_len: 0,
            case: Value::Null,
            max_samples: 1,
        }
    }
    /// register a canonical LTS state; returns true if it is new
    pub fn state<T: Hash + ?Sized>(&mut self, s: &T) -> bool {
        self.states.insert(h128(&(self.suite.as_str(), s)))
    }
    /// count states that are distinct by construction without hashing them (e.g. one per enumerated mutant)
    pub fn states_by_construction(&mut self, n: u64) {
        self.n_states_extra += n;
    }
    /// drop the state set, keeping its size (bounds memory once an item is finished)
    pub fn compact(&mut self) {
        self.n_states_extra += self.states.len() as u64;
        self.states = HashSet::new();
    }
    pub fn n_states(&self) -> u64 {
        self.states.len() as u64 + self.n_states_extra
    }
    pub fn outcome(&mut self, o: &str) {
        *self.outcomes.entry(o.to_string()).or_insert(0) += 1;
    }
    pub fn add(&mut self, k: &str, n: u64) {
        *self.extra.entry(k.to_string()).or_insert(0) += n;
    }
    /// one maximal path (root -> terminal) executed on the implementation and judged by the oracle
    pub fn path(&mut self) {
        self.paths += 1;
    }
    pub fn depth(&mut self, d: u64) {
        if d > self.max_depth {
            self.max_depth = d;
        }
    }
    /// everything recorded so far is shared context of all later cases of this item
    pub fn context_done(&mut self) {
        self.ctx_len = api::rec_len();
    }
    /// start of a case: the trace of a violation is context + the calls made since here
    pub fn begin_case(&mut self, case: Value) {
        api::rec_truncate(self.ctx_len);
        api::note_case(&case);
        self.case = case;
    }
    pub fn sample(&mut self, v: Value) {
        if self.samples.len() < self.max_samples {
            self.samples.push(v);
        }
    }
    pub fn violate(&mut self, key: &str, what: String) {
        let case = self.case.clone();
        self.violate_case(key, what, case);
    }
    pub fn violate_case(&mut self, key: &str, what: String, case: Value) {
        let n = self.vio_counts.entry(key.to_string()).or_insert(0);
        *n += 1;
        if *n == 1 {
            let trace = api::rec_snapshot();
            self.violations.push(Violation { property: self.property.to_string(), key: key.to_string(), what, suite: self.suite.clone(), case, trace });
        }
    }
    /// report panics observed by the API monitor since the last call as violations of `property` (C12's monitor
    /// is active in every driver; see DESIGN 3/C12)
    pub fn drain_panics(&mut self) {
        for (op, msg) in api::panics_take() {
            let short: String = msg.chars().take(80).collect();
            if self.property == "C12" {
                self.violate(&format!("panic/{}", op), format!("API call {} panicked: {}", op, short));
            } else {
                // a panic is a violation of C12, not of the property this driver decides; here it only means that the
                // driver could not use that call's result (reported as a failed precondition: exit 2 unless the
                // driver also finds a violation of its own property)
                self.violate(&format!("honest-step/panic/{}", op), format!("API call {} panicked (C12's business): {}", op, short));
            }
        }
    }
}

#[derive(Default)]
pub struct Totals {
    pub states: u64,
    pub transitions: u64,
    pub edges: u64,
    pub paths: u64,
    pub max_depth: u64,
    pub outcomes: BTreeMap<String, u64>,
    pub extra: BTreeMap<String, u64>,
    pub per_suite: BTreeMap<String, Value>,
    pub violations: Vec<Violation>,
    pub vio_counts: BTreeMap<String, u64>,
    pub samples: Vec<Value>,
    pub caps: Vec<String>,
    pub undetermined: u64,
    pub panics: u64,
    pub slow_calls: u64,
    pub max_call_ms: u128,
    pub machinery_errors: Vec<String>,
    pub items: u64,
}

/// Run `f` on every item in parallel.  Items that report violations are re-run with call recording on to
/// (a) confirm that the same violations appear again (determinism) and (b) obtain replayable traces.
pub fn run_items<I: Sync + Send, F: Fn(&I, &mut Cx) + Sync>(property: &'static str, items: &[I], suite_of: impl Fn(&I) -> String + Sync, f: F) -> Totals {
    let results: Vec<(Cx, api::Counters, Option<String>)> = items
        .par_iter()
        .map(|it| {
            let suite = suite_of(it);
            let _ = api::counters_take();
            let _ = api::panics_take();
            let mut cx = Cx::new(property, &suite);
            f(it, &mut cx);
            cx.drain_panics();
            cx.compact();
            let cnt = api::counters_take();
            let mut err = None;
            if !cx.violations.is_empty() {
                // confirmation pass with recording
                api::rec_start();
                let mut cx2 = Cx::new(property, &suite);
                f(it, &mut cx2);
                cx2.drain_panics();
                api::rec_stop();
                let _ = api::counters_take();
                // same violation classes, same first instance each (counts are taken from the first pass: the
                // recording pass may re-execute path prefixes and so re-report a prefix's violation)
                let mut k1: Vec<(&String, &String)> = cx.violations.iter().map(|v| (&v.key, &v.what)).collect();
                let mut k2: Vec<(&String, &String)> = cx2.violations.iter().map(|v| (&v.key, &v.what)).collect();
                k1.sort();
                k2.sort();
                if k1 != k2 {
                    err = Some(format!("non-reproducible violations in suite {} (first pass {:?} / second pass {:?}): machinery error", suite, k1.iter().map(|k| k.0).collect::<Vec<_>>(), k2.iter().map(|k| k.0).collect::<Vec<_>>()));
                }
                if err.is_some() {
                    // not reproducible: no verdict from this item (reported as a machinery error instead)
                    cx.violations.clear();
                    cx.vio_counts.clear();
                } else {
                    cx.violations = cx2.violations;
                }
            }
            (cx, cnt, err)
        })
        .collect();
    let mut t = Totals::default();
    for (cx, cnt, err) in results {
        t.items += 1;
        t.states += cx.n_states();
        t.transitions += cnt.calls;
        t.edges += cx.edges;
        t.paths += cx.paths;
        t.max_depth = t.max_depth.max(cx.max_depth);
        t.panics += cnt.panics;
        t.slow_calls += cnt.slow;
        t.max_call_ms = t.max_call_ms.max(cnt.max_ms);
        t.undetermined += cx.undetermined;
        for (k, v) in &cx.outcomes {
            *t.outcomes.entry(k.clone()).or_insert(0) += v;
        }
        for (k, v) in &cx.extra {
            *t.extra.entry(k.clone()).or_insert(0) += v;
        }
        let e = t.per_suite.entry(cx.suite.clone()).or_insert_with(|| json!({"states":0u64,"transitions":0u64,"paths":0u64}));
        e["states"] = json!(e["states"].as_u64().unwrap() + cx.n_states());
        e["transitions"] = json!(e["transitions"].as_u64().unwrap() + cnt.calls);
        e["paths"] = json!(e["paths"].as_u64().unwrap() + cx.paths);
        if t.samples.len() < 5 {
            t.samples.extend(cx.samples.into_iter().take(1));
        }
        for c in cx.caps {
            if !t.caps.contains(&c) {
                t.caps.push(c);
            }
        }
        for (k, n) in &cx.vio_counts {
            *t.vio_counts.entry(k.clone()).or_insert(0) += n;
        }
        for v in cx.violations {
            if !t.violations.iter().any(|x| x.key == v.key) {
                t.violations.push(v);
            }
        }
        if let Some(e) = err {
            t.machinery_errors.push(e);
        }
    }
    t
}

impl Totals {
    pub fn merge(&mut self, o: Totals) {
        self.items += o.items;
        self.states += o.states;
        self.transitions += o.transitions;
        self.edges += o.edges;
        self.paths += o.paths;
        self.max_depth = self.max_depth.max(o.max_depth);
        self.panics += o.panics;
        self.slow_calls += o.slow_calls;
        self.max_call_ms = self.max_call_ms.max(o.max_call_ms);
        self.undetermined += o.undetermined;
        for (k, v) in o.outcomes {
            *self.outcomes.entry(k).or_insert(0) += v;
        }
        for (k, v) in o.extra {
            *self.extra.entry(k).or_insert(0) += v;
        }
        for (k, v) in o.per_suite {
            match self.per_suite.get_mut(&k) {
                Some(e) => {
                    for f in ["states", "transitions", "paths"] {
                        e[f] = json!(e[f].as_u64().unwrap_or(0) + v[f].as_u64().unwrap_or(0));
                    }
                }
                None => {
                    self.per_suite.insert(k, v);
                }
            }
        }
        for s in o.samples {
            if self.samples.len() < 6 {
                self.samples.push(s);
            }
        }
        for c in o.caps {
            if !self.caps.contains(&c) {
                self.caps.push(c);
            }
        }
        for (k, n) in o.vio_counts {
            *self.vio_counts.entry(k).or_insert(0) += n;
        }
        for v in o.violations {
            if !self.violations.iter().any(|x| x.key == v.key) {
                self.violations.push(v);
            }
        }
        self.machinery_errors.extend(o.machinery_errors);
    }
}

// ------------------------------------------------------------------------------------------------
// known findings
// ------------------------------------------------------------------------------------------------
#[derive(Clone, Debug, Deserialize)]
pub struct Finding {
    pub property: String,
    pub key: String,
    pub status: String,
    #[serde(default)]
    pub commit: Option<String>,
    pub what: String,
}
pub fn load_findings(verif: &str) -> Vec<Finding> {
    let p = format!("{}/known_findings.json", verif);
    match std::fs::read_to_string(&p) {
        Ok(s) => serde_json::from_str(&s).unwrap_or_else(|e| {
            eprintln!("machinery error: cannot parse {}: {}", p, e);
            std::process::exit(2)
        }),
        Err(_) => vec![],
    }
}

// ------------------------------------------------------------------------------------------------
// final report: evidence file, replay files, VIOLATION / KNOWN-FINDING lines, exit code
// ------------------------------------------------------------------------------------------------
pub struct Report {
    pub property: &'static str,
    pub tier: Tier,
    pub seed: u64,
    pub rule: String,
    pub bounds: Value,
    pub assumptions: Vec<String>,
    pub exhaustive: bool,
    pub crosscheck: Value,
}

pub fn verif_dir() -> String {
    std::env::var("VERIF_DIR").unwrap_or_else(|_| "/verif".to_string())
}

pub fn finish(rep: Report, t: Totals, t0: Instant) -> i32 {
    let verif = verif_dir();
    let findings = load_findings(&verif);
    // group violations by key, first instance kept (enumeration is simplest-first)
    let mut by_key: BTreeMap<String, (Violation, u64)> = BTreeMap::new();
    for v in t.violations.iter() {
        let n = t.vio_counts.get(&v.key).copied().unwrap_or(1);
        by_key.entry(v.key.clone()).or_insert((v.clone(), n));
    }
    let mut new_violations = 0;
    let mut known = 0;
    let _ = std::fs::create_dir_all(format!("{}/replays", verif));
    let mut vio_summaries = vec![];
    let mut preconditions = 0;
    for (key, (v, n)) in &by_key {
        // a failed precondition (the honest flow that should lead to the explored states fails, a field locator does
        // not find its field, ...) means this property cannot be decided on this tree; it is not a verdict about it
        if key.starts_with("machinery/") || key.starts_with("honest-step/") {
            preconditions += 1;
            println!("PRECONDITION-FAILED property={} {} [{}; {} instance(s); first in suite {}] - this check cannot decide its property here (honest behaviour is C01's/C09's business)", rep.property, v.what, key, n, v.suite);
            vio_summaries.push(json!({"key": key, "what": v.what, "suite": v.suite, "instances": n, "precondition": true}));
            continue;
        }
        let is_known = findings.iter().any(|f| f.property == rep.property && f.status == "known" && &f.key == key);
        if is_known {
            known += 1;
            println!("KNOWN-FINDING: property={} {} [{}; {} instance(s); first in suite {}]", rep.property, v.what, key, n, v.suite);
        } else {
            new_violations += 1;
            let hid = hex::encode(&Sha256::digest(format!("{}/{}", rep.property, key).as_bytes())[..6]);
            let path = format!("{}/replays/{}-{}.json", verif, rep.property, hid);
            let body = json!({
                "property": rep.property, "key": key, "what": v.what, "suite": v.suite, "seed": rep.seed, "tier": rep.tier.name(),
                "instances": n, "case": v.case, "trace": v.trace,
            });
            if let Err(e) = std::fs::write(&path, serde_json::to_vec_pretty(&body).unwrap()) {
                eprintln!("machinery error: cannot write replay {}: {}", path, e);
                return 2;
            }
            println!("VIOLATION property={} replay={}", rep.property, path);
            println!("  key={} suite={} instances={} : {}", key, v.suite, n, v.what);
        }
        vio_summaries.push(json!({"key": key, "what": v.what, "suite": v.suite, "instances": n, "known": is_known}));
    }
    let wall = t0.elapsed().as_secs_f64();
    let distinct_outcomes = t.outcomes.len();
    let mut samples = t.samples.clone();
    if samples.is_empty() {
        samples.push(json!({"note": "no sample recorded"}));
    }
    let ev = json!({
        "property_id": rep.property,
        "tier": rep.tier.name(),
        "seed": rep.seed,
        "level": "model_checking",
        "coverage": {
            "states": t.states.max(1),
            "transitions": t.transitions.max(1),
            "traces_validated_against_impl": t.paths,
            "samples": samples,
            "exhaustive": rep.exhaustive && t.caps.is_empty(),
            "rule": rep.rule,
            "bounds": rep.bounds,
            "caps": t.caps,
            "lts_edges": t.edges,
            "max_depth": t.max_depth,
            "outcomes": t.outcomes,
            "distinct_outcomes": distinct_outcomes,
            "counters": t.extra,
            "per_suite": t.per_suite,
            "work_items": t.items,
            "undetermined": t.undetermined,
            "crosscheck": rep.crosscheck,
            "monitor": {"panics": t.panics, "slow_calls": t.slow_calls, "max_call_ms": t.max_call_ms as u64},
            "violation_classes": vio_summaries,
            "known_findings_matched": known,
        },
        "assumptions": rep.assumptions,
        "wall_s": wall,
        "violations": new_violations,
    });
    let _ = std::fs::create_dir_all(format!("{}/evidence", verif));
    // a build variant (e.g. debug assertions on) writes next to, never over, the main evidence file
    let evp = match std::env::var("VERIF_EVIDENCE_SUFFIX") {
        Ok(sfx) if !sfx.is_empty() => {
            let _ = std::fs::create_dir_all(format!("{}/evidence/variants", verif));
            format!("{}/evidence/variants/{}.{}.json", verif, rep.property, sfx)
        }
        _ => format!("{}/evidence/{}.json", verif, rep.property),
    };
    if let Err(e) = std::fs::write(&evp, serde_json::to_vec_pretty(&ev).unwrap()) {
        eprintln!("machinery error: cannot write evidence {}: {}", evp, e);
        return 2;
    }
    println!(
        "{} {} seed={} states={} transitions={} paths={} outcomes={:?} violations={} known={} wall={:.1}s",
        rep.property, rep.tier.name(), rep.seed, t.states, t.transitions, t.paths, t.outcomes, new_violations, known, wall
    );
    for e in &t.machinery_errors {
        eprintln!("machinery error: {}", e);
    }
    if new_violations > 0 {
        // reproduced violations are a verdict even if some other work item misbehaved
        1
    } else if !t.machinery_errors.is_empty() {
        2
    } else if preconditions > 0 {
        eprintln!("machinery error: {} precondition(s) of this check failed; the property is undecided", preconditions);
        2
    } else {
        0
    }
}

/// `mc --replay <file>`: re-execute the recorded trace twice with plain sequential calls and compare
pub fn replay(path: &str) -> i32 {
    let s = match std::fs::read_to_string(path) {
        Ok(s) => s,
        Err(e) => {
            eprintln!("cannot read {}: {}", path, e);
            return 2;
        }
    };
    let v: Value = serde_json::from_str(&s).expect("replay json");
    let trace: Vec<CallRec> = serde_json::from_value(v["trace"].clone()).expect("trace");
    println!("replaying {} ({} calls): property={} key={}", path, trace.len(), v["property"], v["key"]);
    println!("  recorded verdict: {}", v["what"]);
    let mut changed = 0;
    for (i, c) in trace.iter().enumerate() {
        let (r1, l1) = api::reexec(c);
        let (r2, l2) = api::reexec(c);
        if r1 != r2 || l1 != l2 {
            if v["property"] == "C17" {
                println!("  [{}] {}::{} gives DIFFERENT results when executed twice with identical arguments and tape: hidden state (what C17 forbids)", i, c.suite, c.op);
                println!("REPRODUCED: non-determinism observed on this tree");
                return 1;
            }
            eprintln!("machinery error: call {} ({}) is not deterministic", i, c.op);
            return 2;
        }
        let same = r1 == c.result && l1 == c.log;
        let show = |r: &Result<Vec<String>, crate::adapter::E>| match r {
            Ok(v) => format!("Ok({})", v.iter().map(|h| if h.len() > 24 { format!("{}..[{}B]", &h[..24], h.len() / 2) } else { h.clone() }).collect::<Vec<_>>().join(", ")),
            Err(e) => format!("Err({:?})", e),
        };
        println!("  [{}] {}::{} -> {} {}", i, c.suite, c.op, show(&r1), if same { "(as recorded)" } else { "(DIFFERS from recording)" });
        if !same {
            println!("       recorded: {}", show(&c.result));
            changed += 1;
        }
    }
    if changed == 0 {
        println!("REPRODUCED: every observation of the recorded violating trace is identical on this tree");
        1
    } else {
        println!("NOT REPRODUCED: {} observation(s) differ from the recording on this tree", changed);
        0
    }
}
